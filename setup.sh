#!/bin/sh
# Build the framework offline from files on disk only. Idempotent.
set -e
cd "$(dirname "$0")"
export CARGO_NET_OFFLINE=true
(cd tools/ssl-facts && cargo build --release --offline)
(cd tools/ssl-grammar && cp /repo/Cargo.lock Cargo.lock 2>/dev/null || true; cargo build --release --offline)
# warm the dependency cache of the extraction target dir and extract facts for the current tree
python3 -c "
import sys; sys.path.insert(0,'.')
from ssl import extract
d,th = extract.facts_dir('quick'); print('facts', d, th)
print('fixtures', extract.fixture_facts())
"
echo setup ok
