#!/usr/bin/env python3
"""One-off: each mutant still compiles and passes the repository's test suite (so it is a realistic breaking change)
and is caught by the quick checks of the properties listed in mutants/index.tsv. Writes mutants/VERIFIED.tsv."""
import os
import shutil
import subprocess
import sys
import tempfile

V = os.path.dirname(os.path.dirname(os.path.abspath(__file__)))
sys.path.insert(0, V)
from tools.mutate import make_copy  # noqa

rows = [l.rstrip("\n").split("\t") for l in open(os.path.join(V, "mutants/index.tsv")) if l.strip() and not l.startswith("#")]
only = sys.argv[1:]
out = []
tgt = os.path.join(V, ".cache", "target-mutant-tests")
for m, rule, key, props, what in rows:
    if only and m not in only:
        continue
    d = make_copy(os.path.join(V, "mutants", m))
    o = tempfile.mkdtemp(prefix="ssl-mut-out-")
    try:
        env = dict(os.environ, CARGO_TARGET_DIR=tgt, CARGO_NET_OFFLINE="true")
        r = subprocess.run(["timeout", "-k", "5", "400", "cargo", "test", "--workspace", "--no-fail-fast", "--offline"], cwd=d, env=env, stdout=subprocess.PIPE, stderr=subprocess.STDOUT, text=True)
        passed = sum(int(l.split("ok. ")[1].split(" passed")[0]) for l in r.stdout.splitlines() if l.startswith("test result: ok."))
        failed = [l for l in r.stdout.splitlines() if l.startswith("test result: FAILED") or "error[" in l or l.startswith("error:")]
        if r.returncode == 124:
            failed = ["TIMEOUT (test suite hangs)"]
        subprocess.run(["pkill", "-f", "target-mutant-tests/debug/deps/simplesl"], stdout=subprocess.DEVNULL)
        tests = "pass:%d" % passed if not failed and passed >= 52 else "FAIL:%s" % (failed[:1] or passed)
        env2 = dict(os.environ, SSL_REPO=d, SSL_OUT=o)
        caught, missed = [], []
        for p in props.split():
            c = subprocess.run([os.path.join(V, "check"), p, "--tier", "quick"], env=env2, stdout=subprocess.PIPE, stderr=subprocess.STDOUT, text=True)
            hit = c.returncode == 1 and any(key in l for l in c.stdout.splitlines() if l.strip().startswith("key:"))
            (caught if hit else missed).append(p)
        line = "%s\t%s\tcaught:%s\tmissed:%s" % (m, tests, ",".join(caught), ",".join(missed) or "-")
        print(line, flush=True)
        out.append(line)
    finally:
        shutil.rmtree(d, ignore_errors=True)
        shutil.rmtree(o, ignore_errors=True)
if not only:
    open(os.path.join(V, "mutants/VERIFIED.tsv"), "w").write("# mutant\ttest suite on the mutated tree\tproperties whose quick check reported the expected key\tmissed\n" + "\n".join(out) + "\n")
