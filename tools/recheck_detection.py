#!/usr/bin/env python3
"""Fast re-check (no cargo test): every seeded edit (mutants/index.tsv) and every independent seeded change (seeded/*) is
still reported by the properties it is mapped to. Prints misses; exit 1 if any."""
import json, os, shutil, subprocess, sys, tempfile, glob
V = os.path.dirname(os.path.dirname(os.path.abspath(__file__)))
sys.path.insert(0, V)
from tools.mutate import make_copy
miss = 0
jobs = []
for l in open(os.path.join(V, "mutants/index.tsv")):
    if l.strip() and not l.startswith("#"):
        m, rule, key, props, what = l.rstrip("\n").split("\t")
        jobs.append((os.path.join(V, "mutants", m), key, props.split()))
for d in sorted(glob.glob(os.path.join(V, "seeded", "*"))):
    meta = json.load(open(os.path.join(d, "meta.json")))
    p2 = os.path.join(d, "patch-rebased.diff")
    jobs.append((p2 if os.path.exists(p2) else os.path.join(d, "patch.diff"), None, [meta["property"]]))
def one(job):
    n, (patch, key, props) = job
    try:
        d = make_copy(patch)
    except SystemExit:
        return "%-60s PATCH DOES NOT APPLY" % os.path.relpath(patch, V), 1
    o = tempfile.mkdtemp(prefix="ssl-mut-out-")
    try:
        env = dict(os.environ, SSL_REPO=d, SSL_OUT=o, SSL_WORKER="-w%d" % (n % WORKERS))
        bad = []
        closed = []
        for p in props:
            c = subprocess.run([os.path.join(V, "check"), p, "--tier", "quick"], env=env, stdout=subprocess.PIPE, stderr=subprocess.STDOUT, text=True)
            keys = [l.strip() for l in c.stdout.splitlines() if l.strip().startswith("key:")]
            hit = c.returncode == 1 and (key is None and keys or any(key in k for k in keys))
            if not hit and key is None and c.returncode == 1 and "CHECK CANNOT DECIDE" in c.stdout and "VIOLATION property=" in c.stdout:
                hit = True      # reported fail-closed: the change outgrew the reviewed model (an anchor / floor no longer holds)
                closed.append(p)
            if not hit:
                bad.append(p)
        return "%-60s %s" % (os.path.relpath(patch, V), ("ok" + (" (fail-closed: %s)" % ",".join(closed) if closed else "")) if not bad else "MISSED by " + ",".join(bad)), len(bad)
    finally:
        shutil.rmtree(d, ignore_errors=True); shutil.rmtree(o, ignore_errors=True)


WORKERS = 6
if __name__ == "__main__":
    from concurrent.futures import ThreadPoolExecutor
    only = sys.argv[1:]
    if only:
        jobs = [j for j in jobs if any(x in j[0] for x in only)]
    # jobs of one worker must not overlap in time: give every worker its own queue
    queues = [[(i, j) for i, j in enumerate(jobs) if i % WORKERS == w] for w in range(WORKERS)]

    def drain(q):
        out = []
        for job in q:
            line, m = one(job)
            print(line, flush=True)
            out.append(m)
        return sum(out)
    with ThreadPoolExecutor(WORKERS) as ex:
        miss = sum(ex.map(drain, queues))
    sys.exit(1 if miss else 0)
