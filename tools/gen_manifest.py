#!/usr/bin/env python3
"""Regenerate MANIFEST.json from ssl/properties.py (claimed) and ssl/not_applicable.py."""
import json
import os
import sys

V = os.path.dirname(os.path.dirname(os.path.abspath(__file__)))
sys.path.insert(0, V)
from ssl import properties  # noqa

ALL = [json.loads(l)["id"] for l in open(os.path.join(V, "properties.jsonl"))]
checks = []
for pid in ALL:
    if pid not in properties.PROPS:
        continue
    p = properties.PROPS[pid]
    checks.append({
        "property_id": pid,
        "quick_cmd": "./check %s --tier quick" % pid,
        "thorough_cmd": "./check %s --tier thorough" % pid,
        "evidence_file": "/verif/evidence/%s.json" % pid,
        "replay_cmd_template": "./check %s --replay {path}" % pid,
        "engine": "ssl-static",
        "level_claimed": {"category": "other", "text": p["level_text"], "design_ref": p["design_ref"]},
        "level_note": p["level_note"],
        "technique": p["technique"],
    })
na = [{"property_id": pid, "reason": properties.NOT_APPLICABLE.get(pid, "no check built yet for this property (work in progress); not claimed")}
      for pid in ALL if pid not in properties.PROPS]
m = {
    "version": 1,
    "setup_cmd": "./setup.sh",
    "hooks": {
        "guard": "mpolosak_simplesl_verif",
        "enable": "none needed: static analysis reads the unmodified sources (no instrumentation in /repo)",
        "baseline_off_cmd": "cd /repo && cargo test --workspace --no-fail-fast --offline",
        "source_commits": [],
        "add_only": True,
    },
    "engines": [
        {"name": "ssl-static", "path": "/verif/check",
         "serves_properties": [c["property_id"] for c in checks],
         "kind_free_text": "static analysis: rustc_private MIR/HIR facts driver (tools/ssl-facts) + pest_meta grammar dump "
                           "(tools/ssl-grammar) + Python rule engine (ssl/) over CFG, dominators, def-use, resolved call graph, "
                           "grammar child-sequence automata; compile-pass/compile-fail witnesses (witness/)"},
    ],
    "checks": checks,
    "not_applicable": na,
    "notes": "Every check re-extracts facts from /repo's current working tree (cached by content hash of the sources). "
             "Known findings: /verif/known_findings.tsv. Design: /verif/DESIGN.md.",
}
json.dump(m, open(os.path.join(V, "MANIFEST.json"), "w"), indent=1)
print("MANIFEST.json: %d checks, %d not applicable" % (len(checks), len(na)))
