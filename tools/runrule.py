#!/usr/bin/env python3
"""Dev helper: run one rule module function and print its outcome.  tools/runrule.py stop.run"""
import sys, os, collections, importlib
sys.path.insert(0, os.path.dirname(os.path.dirname(os.path.abspath(__file__))))
from ssl.engine import Ctx
mod, fn = sys.argv[1].split(".")
m = importlib.import_module("ssl.rules." + mod)
out = getattr(m, fn)(Ctx("DEV", sys.argv[2] if len(sys.argv) > 2 else "quick", 0))
if not isinstance(out, list):
    out = [out]
for r in out:
    print(r.rule, "instances", len(r.instances), "violations", len(r.violations), "broken", r.broken)
    print("  stats", r.stats)
    for v in r.violations:
        print(v.text())
    if "-v" in sys.argv:
        for i in r.instances:
            print("   ", i["verdict"], i["key"], "|", i["note"])
