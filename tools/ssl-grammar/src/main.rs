// ssl-grammar: dump a pest grammar (as pest_meta parses it - the same front end pest_derive uses)
// as JSON: rule name, type (normal/silent/atomic/compound/nonatomic), expression tree.
mod vm;
use pest_meta::ast::{Expr, RuleType};
use pest_meta::parser::{self, Rule};

fn esc(s: &str) -> String {
    let mut o = String::from("\"");
    for c in s.chars() {
        match c {
            '"' => o.push_str("\\\""),
            '\\' => o.push_str("\\\\"),
            '\n' => o.push_str("\\n"),
            '\r' => o.push_str("\\r"),
            '\t' => o.push_str("\\t"),
            c if (c as u32) < 0x20 => o.push_str(&format!("\\u{:04x}", c as u32)),
            c => o.push(c),
        }
    }
    o.push('"');
    o
}

fn un(k: &str, e: &Expr) -> String {
    format!("{{\"k\":{},\"e\":{}}}", esc(k), expr(e))
}

fn expr(e: &Expr) -> String {
    match e {
        Expr::Str(s) => format!("{{\"k\":\"str\",\"s\":{}}}", esc(s)),
        Expr::Insens(s) => format!("{{\"k\":\"insens\",\"s\":{}}}", esc(s)),
        Expr::Range(a, b) => format!("{{\"k\":\"range\",\"a\":{},\"b\":{}}}", esc(a), esc(b)),
        Expr::Ident(s) => format!("{{\"k\":\"ident\",\"s\":{}}}", esc(s)),
        Expr::PeekSlice(..) => "{\"k\":\"peekslice\"}".to_string(),
        Expr::PosPred(e) => un("pospred", e),
        Expr::NegPred(e) => un("negpred", e),
        Expr::Seq(a, b) => format!("{{\"k\":\"seq\",\"a\":{},\"b\":{}}}", expr(a), expr(b)),
        Expr::Choice(a, b) => format!("{{\"k\":\"choice\",\"a\":{},\"b\":{}}}", expr(a), expr(b)),
        Expr::Opt(e) => un("opt", e),
        Expr::Rep(e) => un("rep", e),
        Expr::RepOnce(e) => un("rep1", e),
        Expr::RepExact(e, n) => format!("{{\"k\":\"repn\",\"min\":{},\"max\":{},\"e\":{}}}", n, n, expr(e)),
        Expr::RepMin(e, n) => format!("{{\"k\":\"repn\",\"min\":{},\"max\":-1,\"e\":{}}}", n, expr(e)),
        Expr::RepMax(e, n) => format!("{{\"k\":\"repn\",\"min\":0,\"max\":{},\"e\":{}}}", n, expr(e)),
        Expr::RepMinMax(e, a, b) => format!("{{\"k\":\"repn\",\"min\":{},\"max\":{},\"e\":{}}}", a, b, expr(e)),
        Expr::Skip(v) => format!("{{\"k\":\"skip\",\"n\":{}}}", v.len()),
        Expr::Push(e) => un("push", e),
    }
}

// `ssl-grammar parse <file.pest> <snippets.tsv>`: each line `id<TAB>rule<TAB>JSON-string-escaped text`; prints a JSON
// object id -> {ok, tree | error}
fn parse_mode(grammar: &str, snippets: &str) {
    let src = std::fs::read_to_string(grammar).expect("read grammar");
    let pairs = parser::parse(Rule::grammar_rules, &src).unwrap_or_else(|e| {
        eprintln!("grammar does not parse: {}", e);
        std::process::exit(2)
    });
    let rules = parser::consume_rules(pairs).unwrap_or_else(|es| {
        for e in es {
            eprintln!("{}", e);
        }
        std::process::exit(2)
    });
    let vm = vm::Vm::new(pest_meta::optimizer::optimize(rules));
    let text = std::fs::read_to_string(snippets).expect("read snippets");
    let mut out = Vec::new();
    for line in text.lines() {
        let mut it = line.splitn(3, '\t');
        let (Some(id), Some(rule), Some(body)) = (it.next(), it.next(), it.next()) else { continue };
        let body = unescape(body);
        match vm.parse(rule, &body) {
            Ok(pairs) => {
                let mut s = String::from("[");
                let mut first = true;
                for p in pairs {
                    if !first {
                        s.push(',');
                    }
                    first = false;
                    vm::pair_json(p, &mut s, &|x| esc(x));
                }
                s.push(']');
                out.push(format!("{}:{{\"ok\":true,\"text\":{},\"tree\":{}}}", esc(id), esc(&body), s));
            }
            Err(e) => out.push(format!("{}:{{\"ok\":false,\"text\":{},\"error\":{}}}", esc(id), esc(&body), esc(&e))),
        }
    }
    println!("{{{}}}", out.join(","));
}

// the snippet file escapes only backslash, newline, tab and carriage return
fn unescape(s: &str) -> String {
    let mut o = String::new();
    let mut it = s.chars();
    while let Some(c) = it.next() {
        if c == '\\' {
            match it.next() {
                Some('n') => o.push('\n'),
                Some('t') => o.push('\t'),
                Some('r') => o.push('\r'),
                Some('\\') => o.push('\\'),
                Some(x) => {
                    o.push('\\');
                    o.push(x)
                }
                None => o.push('\\'),
            }
        } else {
            o.push(c)
        }
    }
    o
}

fn main() {
    let args: Vec<String> = std::env::args().collect();
    if args.len() == 4 && args[1] == "parse" {
        parse_mode(&args[2], &args[3]);
        return;
    }
    let path = std::env::args().nth(1).expect("usage: ssl-grammar <file.pest> | ssl-grammar parse <file.pest> <snippets.tsv>");
    let src = std::fs::read_to_string(&path).expect("read grammar");
    let pairs = match parser::parse(Rule::grammar_rules, &src) {
        Ok(p) => p,
        Err(e) => {
            eprintln!("grammar does not parse: {}", e);
            std::process::exit(2);
        }
    };
    let rules = match parser::consume_rules(pairs) {
        Ok(r) => r,
        Err(es) => {
            for e in es {
                eprintln!("{}", e);
            }
            std::process::exit(2);
        }
    };
    let mut out = Vec::new();
    for r in &rules {
        let ty = match r.ty {
            RuleType::Normal => "normal",
            RuleType::Silent => "silent",
            RuleType::Atomic => "atomic",
            RuleType::CompoundAtomic => "compound",
            RuleType::NonAtomic => "nonatomic",
        };
        out.push(format!("{{\"name\":{},\"ty\":{},\"expr\":{}}}", esc(&r.name), esc(ty), expr(&r.expr)));
    }
    println!("{{\"rules\":[{}]}}", out.join(","));
}
