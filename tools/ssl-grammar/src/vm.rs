// A small interpreter for a pest grammar (the optimised AST pest_generator compiles), written against pest's own
// ParserState so that atomicity, implicit whitespace, the token queue and look-ahead behave exactly as in the derived
// parser. Used to parse the SimpleSL fragments that are embedded in the Rust sources (static analysis input only:
// nothing is executed).
use pest::iterators::Pair;
use pest::{Atomicity, ParseResult, ParserState};
use pest_meta::ast::RuleType;
use pest_meta::optimizer::{OptimizedExpr, OptimizedRule};
use std::collections::HashMap;

type St<'i> = Box<ParserState<'i, &'static str>>;

pub struct Vm {
    rules: HashMap<String, (&'static str, RuleType, OptimizedExpr)>,
    has_ws: bool,
    has_comment: bool,
}

impl Vm {
    pub fn new(rules: Vec<OptimizedRule>) -> Vm {
        let mut m = HashMap::new();
        for r in rules {
            let name: &'static str = Box::leak(r.name.clone().into_boxed_str());
            m.insert(r.name, (name, r.ty, r.expr));
        }
        let has_ws = m.contains_key("WHITESPACE");
        let has_comment = m.contains_key("COMMENT");
        Vm { rules: m, has_ws, has_comment }
    }

    pub fn parse<'i>(&self, rule: &str, input: &'i str) -> Result<pest::iterators::Pairs<'i, &'static str>, String> {
        if !self.rules.contains_key(rule) {
            return Err(format!("no rule {}", rule));
        }
        pest::state(input, |state| self.rule(rule, state)).map_err(|e| format!("{}", e))
    }

    fn rule<'i>(&self, name: &str, state: St<'i>) -> ParseResult<St<'i>> {
        if let Some((sname, ty, expr)) = self.rules.get(name) {
            let sname: &'static str = sname;
            let skip = !matches!(ty, RuleType::Atomic | RuleType::CompoundAtomic);
            if name == "WHITESPACE" || name == "COMMENT" {
                return match ty {
                    RuleType::Silent => state.atomic(Atomicity::Atomic, |s| self.expr(expr, s, false)),
                    _ => state.atomic(Atomicity::Atomic, |s| s.rule(sname, |s| self.expr(expr, s, false))),
                };
            }
            return match ty {
                RuleType::Normal => state.rule(sname, |s| self.expr(expr, s, skip)),
                RuleType::Silent => self.expr(expr, state, skip),
                RuleType::Atomic => state.rule(sname, |s| s.atomic(Atomicity::Atomic, |s| self.expr(expr, s, false))),
                RuleType::CompoundAtomic => state.atomic(Atomicity::CompoundAtomic, |s| s.rule(sname, |s| self.expr(expr, s, false))),
                RuleType::NonAtomic => state.atomic(Atomicity::NonAtomic, |s| s.rule(sname, |s| self.expr(expr, s, true))),
            };
        }
        match name {
            "ANY" => state.skip(1),
            "SOI" => state.start_of_input(),
            "EOI" => state.rule("EOI", |s| s.end_of_input()),
            "PEEK" => state.stack_peek(),
            "PEEK_ALL" => state.stack_match_peek(),
            "POP" => state.stack_pop(),
            "POP_ALL" => state.stack_match_pop(),
            "DROP" => state.stack_drop(),
            "ASCII_DIGIT" => state.match_range('0'..'9'),
            "ASCII_NONZERO_DIGIT" => state.match_range('1'..'9'),
            "ASCII_BIN_DIGIT" => state.match_range('0'..'1'),
            "ASCII_OCT_DIGIT" => state.match_range('0'..'7'),
            "ASCII_HEX_DIGIT" => state
                .match_range('0'..'9')
                .or_else(|s| s.match_range('a'..'f'))
                .or_else(|s| s.match_range('A'..'F')),
            "ASCII_ALPHA_LOWER" => state.match_range('a'..'z'),
            "ASCII_ALPHA_UPPER" => state.match_range('A'..'Z'),
            "ASCII_ALPHA" => state.match_range('a'..'z').or_else(|s| s.match_range('A'..'Z')),
            "ASCII_ALPHANUMERIC" => state
                .match_range('a'..'z')
                .or_else(|s| s.match_range('A'..'Z'))
                .or_else(|s| s.match_range('0'..'9')),
            "ASCII" => state.match_range('\x00'..'\x7f'),
            "NEWLINE" => state
                .match_string("\n")
                .or_else(|s| s.match_string("\r\n"))
                .or_else(|s| s.match_string("\r")),
            other => panic!("ssl-grammar vm: unsupported builtin rule {}", other),
        }
    }

    fn skip<'i>(&self, state: St<'i>) -> ParseResult<St<'i>> {
        match (self.has_ws, self.has_comment) {
            (false, false) => Ok(state),
            (true, false) => {
                if state.atomicity() == Atomicity::NonAtomic {
                    state.repeat(|s| self.rule("WHITESPACE", s))
                } else {
                    Ok(state)
                }
            }
            (false, true) => {
                if state.atomicity() == Atomicity::NonAtomic {
                    state.repeat(|s| self.rule("COMMENT", s))
                } else {
                    Ok(state)
                }
            }
            (true, true) => {
                if state.atomicity() == Atomicity::NonAtomic {
                    state.sequence(|s| {
                        s.repeat(|s| self.rule("WHITESPACE", s)).and_then(|s| {
                            s.repeat(|s| {
                                s.sequence(|s| {
                                    self.rule("COMMENT", s).and_then(|s| s.repeat(|s| self.rule("WHITESPACE", s)))
                                })
                            })
                        })
                    })
                } else {
                    Ok(state)
                }
            }
        }
    }

    fn expr<'i>(&self, e: &OptimizedExpr, state: St<'i>, skip: bool) -> ParseResult<St<'i>> {
        match e {
            OptimizedExpr::Str(s) => state.match_string(s),
            OptimizedExpr::Insens(s) => state.match_insensitive(s),
            OptimizedExpr::Range(a, b) => {
                let a = a.chars().next().unwrap();
                let b = b.chars().next().unwrap();
                state.match_range(a..b)
            }
            OptimizedExpr::Ident(n) => self.rule(n, state),
            OptimizedExpr::PeekSlice(a, b) => state.stack_match_peek_slice(*a, *b, pest::MatchDir::BottomToTop),
            OptimizedExpr::PosPred(e) => state.lookahead(true, |s| self.expr(e, s, skip)),
            OptimizedExpr::NegPred(e) => state.lookahead(false, |s| self.expr(e, s, skip)),
            OptimizedExpr::Seq(a, b) => {
                if skip {
                    state.sequence(|s| self.expr(a, s, skip).and_then(|s| self.skip(s)).and_then(|s| self.expr(b, s, skip)))
                } else {
                    state.sequence(|s| self.expr(a, s, skip).and_then(|s| self.expr(b, s, skip)))
                }
            }
            OptimizedExpr::Choice(a, b) => self.expr(a, state, skip).or_else(|s| self.expr(b, s, skip)),
            OptimizedExpr::Opt(e) => state.optional(|s| self.expr(e, s, skip)),
            OptimizedExpr::Rep(e) => {
                if skip {
                    state.sequence(|s| {
                        s.optional(|s| {
                            self.expr(e, s, skip).and_then(|s| {
                                s.repeat(|s| s.sequence(|s| self.skip(s).and_then(|s| self.expr(e, s, skip))))
                            })
                        })
                    })
                } else {
                    state.repeat(|s| self.expr(e, s, skip))
                }
            }
            OptimizedExpr::Skip(v) => {
                let v: Vec<&str> = v.iter().map(|s| s.as_str()).collect();
                state.skip_until(&v)
            }
            OptimizedExpr::Push(e) => state.stack_push(|s| self.expr(e, s, skip)),
            OptimizedExpr::RestoreOnErr(e) => state.restore_on_err(|s| self.expr(e, s, skip)),
        }
    }
}

pub fn pair_json(p: Pair<&'static str>, out: &mut String, esc: &dyn Fn(&str) -> String) {
    let sp = p.as_span();
    out.push_str(&format!("{{\"r\":{},\"s\":{},\"e\":{},\"t\":{},\"c\":[", esc(p.as_rule()), sp.start(), sp.end(), esc(p.as_str())));
    let mut first = true;
    for c in p.into_inner() {
        if !first {
            out.push(',');
        }
        first = false;
        pair_json(c, out, esc);
    }
    out.push_str("]}");
}
