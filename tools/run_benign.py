#!/usr/bin/env python3
"""Every claimed property's quick check on every behaviour-preserving edit (benign/*.diff, benign/agents/*.diff): any report
is a false alarm. Parallel (6 workers, own cargo target dir each). Exit 1 if any edit alarms."""
import glob, json, os, shutil, subprocess, sys, tempfile
from concurrent.futures import ThreadPoolExecutor
V = os.path.dirname(os.path.dirname(os.path.abspath(__file__)))
sys.path.insert(0, V)
from tools.mutate import make_copy
WORKERS = 6
PROPS = [c["property_id"] for c in json.load(open(os.path.join(V, "MANIFEST.json")))["checks"]]


def one(job):
    n, patch = job
    try:
        d = make_copy(patch)
    except SystemExit:
        return "NOAPPLY %s" % os.path.relpath(patch, V), 1
    o = tempfile.mkdtemp(prefix="ssl-mut-out-")
    try:
        env = dict(os.environ, SSL_REPO=d, SSL_OUT=o, SSL_WORKER="-b%d" % (n % WORKERS))
        lines = []
        for p in PROPS:
            c = subprocess.run([os.path.join(V, "check"), p, "--tier", "quick"], env=env, stdout=subprocess.PIPE, stderr=subprocess.STDOUT, text=True)
            if c.returncode != 0:
                lines.append("   %s: %s" % (p, " | ".join(l.strip()[:200] for l in c.stdout.splitlines() if l.startswith("["))[:600]))
        rel = os.path.relpath(patch, V)
        return ("silent  %s" % rel if not lines else "ALARM   %s\n%s" % (rel, "\n".join(lines))), (1 if lines else 0)
    finally:
        shutil.rmtree(d, ignore_errors=True)
        shutil.rmtree(o, ignore_errors=True)


if __name__ == "__main__":
    only = sys.argv[1:]
    patches = sorted(glob.glob(os.path.join(V, "benign", "*.diff")) + glob.glob(os.path.join(V, "benign", "agents", "*.diff")))
    if only:
        patches = [p for p in patches if any(x in p for x in only)]
    queues = [[(i, p) for i, p in enumerate(patches) if i % WORKERS == w] for w in range(WORKERS)]

    def drain(q):
        tot = 0
        for job in q:
            line, m = one(job)
            print(line, flush=True)
            tot += m
        return tot
    with ThreadPoolExecutor(WORKERS) as ex:
        bad = sum(ex.map(drain, queues))
    print("%d edits, %d alarms" % (len(patches), bad))
    sys.exit(1 if bad else 0)
