#!/usr/bin/env python3
"""print the property -> rules table of DESIGN.md 8.2 from ssl/properties.py"""
import os, sys
from functools import partial
V = os.path.dirname(os.path.dirname(os.path.abspath(__file__)))
sys.path.insert(0, V)
from ssl import properties


def name(r):
    if isinstance(r, partial):
        f = r.func
        kw = r.keywords or {}
        extra = []
        if "only_variants" in kw:
            extra.append(",".join(kw["only_variants"]))
        if "only" in kw:
            extra.append(",".join(kw["only"]))
        if "scope" in kw:
            extra.append("scoped")
        return "`%s.%s[%s]`" % (f.__module__.rsplit(".", 1)[-1], f.__name__, ";".join(extra) or "..")
    return "`%s.%s`" % (r.__module__.rsplit(".", 1)[-1], r.__name__)


print("| property | rules run by `./check <id>` |")
print("|---|---|")
for pid in sorted(properties.PROPS):
    print("| %s | %s |" % (pid, ", ".join(name(r) for r in properties.PROPS[pid]["rules"])))
