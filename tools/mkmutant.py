#!/usr/bin/env python3
"""tools/mkmutant.py <name> <repo-relative-file> <old> <new> [<file2> <old2> <new2> ...] -> mutants/<name>.diff"""
import difflib
import os
import sys

V = os.path.dirname(os.path.dirname(os.path.abspath(__file__)))
name = sys.argv[1]
rest = sys.argv[2:]
out = []
while rest:
    f, old, new = rest[:3]
    rest = rest[3:]
    src = open(os.path.join("/repo", f)).read()
    if src.count(old) != 1:
        raise SystemExit("%s: pattern occurs %d times in %s" % (name, src.count(old), f))
    dst = src.replace(old, new)
    out.extend(difflib.unified_diff(src.splitlines(True), dst.splitlines(True), "a/" + f, "b/" + f))
open(os.path.join(V, "mutants", name + ".diff"), "w").write("".join(out))
print("wrote mutants/%s.diff (%d lines)" % (name, len(out)))
