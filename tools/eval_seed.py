#!/usr/bin/env python3
"""tools/eval_seed.py <Cxx> [<seed-dir>]  - confirm a seeded change produced by a sub-agent and run all quick checks on it.

Confirms in scratch copies of /repo (outside /repo and /verif, removed afterwards):
  * the patch applies, the workspace builds, the 52 tests pass with the patch;
  * the demonstration fails with the patch and passes without it;
then runs every claimed property's quick check against the patched copy and stores the result as seeded/<id>/."""
import json
import os
import shutil
import subprocess
import sys
import tempfile

V = os.path.dirname(os.path.dirname(os.path.abspath(__file__)))
PARTS = ["src", "parser", "macros", "docs", "examples", "tests", "example_scripts", "proptest-regressions", "Cargo.toml", "Cargo.lock", "README.md"]


def copy_repo():
    d = tempfile.mkdtemp(prefix="ssl-seed-")
    for part in PARTS:
        s = os.path.join("/repo", part)
        if os.path.isdir(s):
            shutil.copytree(s, os.path.join(d, part), ignore=shutil.ignore_patterns("target"))
        elif os.path.exists(s):
            shutil.copy2(s, os.path.join(d, part))
    return d


def sh(cmd, cwd, env=None, timeout=900):
    try:
        r = subprocess.run(cmd, cwd=cwd, env=env, stdout=subprocess.PIPE, stderr=subprocess.STDOUT, text=True, timeout=timeout)
        return r.returncode, r.stdout
    except subprocess.TimeoutExpired as e:
        return 124, (e.stdout or "") + "\nTIMEOUT"


def main():
    pid = sys.argv[1]
    seed = sys.argv[2] if len(sys.argv) > 2 else "/tmp/seed-" + pid
    name = sys.argv[3] if len(sys.argv) > 3 else pid
    patch = os.path.join(seed, "patch.diff")
    meta = {"property": pid, "source": "independent sub-agent given only the property text and a scratch worktree", "ran": []}
    tgt = os.environ.get("SSL_SEED_TARGET") or os.path.join(V, ".cache", "target-seed")
    env = dict(os.environ, CARGO_TARGET_DIR=tgt, CARGO_NET_OFFLINE="true")
    clean = copy_repo()
    mut = copy_repo()
    try:
        rc, out = sh(["patch", "-p1", "--no-backup-if-mismatch", "-s", "-i", patch], mut)
        meta["patch_applies"] = rc == 0
        if rc != 0:
            print("patch does not apply:\n" + out)
            return 2
        results = {}
        for label, d in (("with_change", mut), ("without_change", clean)):
            rc, out = sh(["cargo", "build", "--workspace", "--offline"], d, env)
            results[label + "_build"] = rc == 0
            # run.sh expects <root>/target/debug/simplesl
            os.makedirs(os.path.join(d, "target", "debug"), exist_ok=True)
            for b in ("simplesl",):
                if os.path.exists(os.path.join(tgt, "debug", b)):
                    shutil.copy2(os.path.join(tgt, "debug", b), os.path.join(d, "target", "debug", b))
            if label == "with_change":
                rc, out = sh(["timeout", "600", "cargo", "test", "--workspace", "--no-fail-fast", "--offline"], d, env)
                passed = sum(int(l.split("ok. ")[1].split(" passed")[0]) for l in out.splitlines() if l.startswith("test result: ok."))
                results["tests_passed_with_change"] = passed
                results["tests_ok_with_change"] = rc == 0 and passed >= 52
            demo = os.path.join(seed, "demo", "run.sh")
            if os.path.exists(demo):
                env2 = dict(env, CARGO_TARGET_DIR=os.path.join(d, "target"))
                rc, out = sh(["bash", demo, d], os.path.join(seed, "demo"), env2, timeout=1200)
                results[label + "_demo_exit"] = rc
                results[label + "_demo_tail"] = out[-600:]
        meta.update(results)
        meta["demo_discriminates"] = results.get("with_change_demo_exit", 0) != 0 and results.get("without_change_demo_exit", 1) == 0
        # our checks
        o = tempfile.mkdtemp(prefix="ssl-seed-out-")
        env3 = dict(os.environ, SSL_REPO=mut, SSL_OUT=o)
        caught = {}
        props = [c["property_id"] for c in json.load(open(os.path.join(V, "MANIFEST.json")))["checks"]]
        for p in props:
            c = subprocess.run([os.path.join(V, "check"), p, "--tier", "quick"], env=env3, stdout=subprocess.PIPE, stderr=subprocess.STDOUT, text=True)
            if c.returncode != 0:
                caught[p] = [l.strip() for l in c.stdout.splitlines() if l.strip().startswith(("key:", "[R-"))][:6]
        shutil.rmtree(o, ignore_errors=True)
        meta["caught_by"] = caught
        meta["caught_by_own_property"] = pid in caught
        dst = os.path.join(V, "seeded", name)
        shutil.rmtree(dst, ignore_errors=True)
        os.makedirs(dst)
        shutil.copy2(patch, os.path.join(dst, "patch.diff"))
        if os.path.isdir(os.path.join(seed, "demo")):
            shutil.copytree(os.path.join(seed, "demo"), os.path.join(dst, "demo"), ignore=shutil.ignore_patterns("target"))
        if os.path.exists(os.path.join(seed, "notes.md")):
            shutil.copy2(os.path.join(seed, "notes.md"), os.path.join(dst, "notes.md"))
        meta["ran"] = ["patch -p1 < patch.diff on a scratch copy of /repo", "cargo build --workspace --offline", "cargo test --workspace --no-fail-fast --offline",
                       "demo/run.sh <copy> with and without the change", "./check <every claimed property> --tier quick with SSL_REPO=<patched copy>"]
        json.dump(meta, open(os.path.join(dst, "meta.json"), "w"), indent=1)
        print(json.dumps({k: v for k, v in meta.items() if k not in ("with_change_demo_tail", "without_change_demo_tail", "ran")}, indent=1))
    finally:
        shutil.rmtree(clean, ignore_errors=True)
        shutil.rmtree(mut, ignore_errors=True)
    return 0


if __name__ == "__main__":
    sys.exit(main())
