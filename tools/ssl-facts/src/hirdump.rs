// HIR-level facts: user-written unsafe, or-patterns that are followed by a condition
// (let-chains `if let A | B = e && cond`, match arms with a guard).
use crate::{esc, list, obj, path, span_info};
use rustc_hir as hir;
use rustc_hir::intravisit::{self, Visitor};
use rustc_middle::hir::nested_filter;
use rustc_middle::ty::TyCtxt;

struct V<'tcx> {
    tcx: TyCtxt<'tcx>,
    unsafe_sites: Vec<String>,
    orpats: Vec<String>,
    owner: Vec<String>,
}

fn qpath_str(q: &hir::QPath<'_>) -> String {
    match q {
        hir::QPath::Resolved(_, p) => p.segments.iter().map(|s| s.ident.to_string()).collect::<Vec<_>>().join("::"),
        hir::QPath::TypeRelative(_, seg) => format!("<_>::{}", seg.ident),
    }
}

fn pat_json(p: &hir::Pat<'_>) -> String {
    use hir::PatKind::*;
    match &p.kind {
        Wild | Missing => obj(vec![("k", esc("wild"))]),
        Binding(_, _, ident, sub) => {
            let mut v = vec![("k", esc("bind")), ("name", esc(&ident.to_string()))];
            if let Some(s) = sub {
                v.push(("sub", pat_json(s)));
            }
            obj(v)
        }
        Tuple(ps, ddpos) => obj(vec![
            ("k", esc("tuple")),
            ("dotdot", format!("{}", ddpos.as_opt_usize().map(|x| x as i64).unwrap_or(-1))),
            ("ps", list(ps.iter().map(pat_json).collect())),
        ]),
        TupleStruct(q, ps, ddpos) => obj(vec![
            ("k", esc("ctor")),
            ("path", esc(&qpath_str(q))),
            ("dotdot", format!("{}", ddpos.as_opt_usize().map(|x| x as i64).unwrap_or(-1))),
            ("ps", list(ps.iter().map(pat_json).collect())),
        ]),
        Struct(q, fs, _) => obj(vec![
            ("k", esc("struct")),
            ("path", esc(&qpath_str(q))),
            ("fields", list(fs.iter().map(|f| obj(vec![("name", esc(&f.ident.to_string())), ("pat", pat_json(f.pat))])).collect())),
        ]),
        Or(ps) => obj(vec![("k", esc("or")), ("ps", list(ps.iter().map(pat_json).collect()))]),
        Ref(s, ..) | Box(s) | Deref(s) => obj(vec![("k", esc("ref")), ("sub", pat_json(s))]),
        Expr(e) => match &e.kind {
            hir::PatExprKind::Path(q) => obj(vec![("k", esc("ctor")), ("path", esc(&qpath_str(q))), ("dotdot", "-1".into()), ("ps", "[]".into())]),
            _ => obj(vec![("k", esc("lit"))]),
        },
        Guard(s, _) => obj(vec![("k", esc("guardpat")), ("sub", pat_json(s))]),
        _ => obj(vec![("k", esc("other"))]),
    }
}

fn has_or(p: &hir::Pat<'_>) -> bool {
    let mut found = false;
    p.walk(|q| {
        if let hir::PatKind::Or(_) = q.kind {
            found = true;
        }
        !found
    });
    found
}

impl<'tcx> V<'tcx> {
    fn site(&self, sp: rustc_span::Span) -> Vec<(&'static str, String)> {
        let (file, line, exp, m) = span_info(self.tcx, sp);
        let mut v = vec![("file", esc(&file)), ("line", line.to_string()), ("owner", esc(self.owner.last().map(|s| s.as_str()).unwrap_or("")))];
        if exp {
            v.push(("exp", esc(&m)));
        }
        v
    }
}

impl<'tcx> Visitor<'tcx> for V<'tcx> {
    type NestedFilter = nested_filter::All;

    fn maybe_tcx(&mut self) -> TyCtxt<'tcx> {
        self.tcx
    }

    fn visit_item(&mut self, i: &'tcx hir::Item<'tcx>) {
        if let hir::ItemKind::Impl(im) = &i.kind {
            if let Some(of) = im.of_trait {
                if matches!(of.safety, hir::Safety::Unsafe) {
                    let mut s = self.site(i.span);
                    s.push(("what", esc("unsafe impl")));
                    self.unsafe_sites.push(obj(s));
                }
            }
        }
        intravisit::walk_item(self, i)
    }

    fn visit_fn(&mut self, fk: intravisit::FnKind<'tcx>, fd: &'tcx hir::FnDecl<'tcx>, b: hir::BodyId, sp: rustc_span::Span, id: rustc_hir::def_id::LocalDefId) {
        let unsafe_fn = match fk {
            intravisit::FnKind::ItemFn(_, _, h) => h.is_unsafe(),
            intravisit::FnKind::Method(_, sig) => sig.header.is_unsafe(),
            intravisit::FnKind::Closure => false,
        };
        self.owner.push(path(self.tcx, id.to_def_id()));
        if unsafe_fn {
            let mut s = self.site(sp);
            s.push(("what", esc("unsafe fn")));
            self.unsafe_sites.push(obj(s));
        }
        intravisit::walk_fn(self, fk, fd, b, id);
        self.owner.pop();
    }

    fn visit_block(&mut self, b: &'tcx hir::Block<'tcx>) {
        if let hir::BlockCheckMode::UnsafeBlock(hir::UnsafeSource::UserProvided) = b.rules {
            let mut s = self.site(b.span);
            s.push(("what", esc("unsafe block")));
            self.unsafe_sites.push(obj(s));
        }
        intravisit::walk_block(self, b)
    }

    fn visit_expr(&mut self, e: &'tcx hir::Expr<'tcx>) {
        // let-chain: `let PAT = init && cond ...`
        if let hir::ExprKind::Binary(op, l, _r) = &e.kind {
            if op.node == hir::BinOpKind::And {
                // leftmost operands of the && chain that are `let`s with or-patterns, followed by something
                let mut cur = *l;
                loop {
                    match &cur.kind {
                        hir::ExprKind::Let(le) => {
                            if has_or(le.pat) {
                                let mut s = self.site(le.span);
                                s.push(("ctx", esc("let-chain")));
                                s.push(("pat", pat_json(le.pat)));
                                self.orpats.push(obj(s));
                            }
                            break;
                        }
                        hir::ExprKind::Binary(op2, _l2, r2) if op2.node == hir::BinOpKind::And => {
                            if let hir::ExprKind::Let(le) = &r2.kind {
                                if has_or(le.pat) {
                                    let mut s = self.site(le.span);
                                    s.push(("ctx", esc("let-chain")));
                                    s.push(("pat", pat_json(le.pat)));
                                    self.orpats.push(obj(s));
                                }
                            }
                            break;
                        }
                        _ => break,
                    }
                }
            }
        }
        intravisit::walk_expr(self, e)
    }

    fn visit_arm(&mut self, a: &'tcx hir::Arm<'tcx>) {
        if a.guard.is_some() && has_or(a.pat) {
            let mut s = self.site(a.span);
            s.push(("ctx", esc("match-guard")));
            s.push(("pat", pat_json(a.pat)));
            self.orpats.push(obj(s));
        }
        intravisit::walk_arm(self, a)
    }
}

pub fn dump(tcx: TyCtxt<'_>) -> String {
    let mut v = V { tcx, unsafe_sites: Vec::new(), orpats: Vec::new(), owner: Vec::new() };
    tcx.hir_walk_toplevel_module(&mut v);
    obj(vec![("unsafe", list(v.unsafe_sites)), ("orpats", list(v.orpats))])
}
