// HIR-level facts (or-patterns in let chains etc.). Filled in incrementally.
use rustc_middle::ty::TyCtxt;

pub fn dump(_tcx: TyCtxt<'_>) -> String {
    "{}".to_string()
}
