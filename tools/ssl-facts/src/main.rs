// ssl-facts: rustc_private driver that dumps the resolved program (MIR bodies with
// resolved callees, ADT tables, impl tables, statics) of every workspace crate as JSON.
// Injected with RUSTC_WORKSPACE_WRAPPER under `cargo +nightly check`.
// One JSON file per (crate, target kind) -> $SSL_FACTS_OUT/<crate>.<kind>.json, one write per process.
#![feature(rustc_private)]
#![feature(box_patterns)]

extern crate rustc_abi;
extern crate rustc_driver;
extern crate rustc_hir;
extern crate rustc_interface;
extern crate rustc_middle;
extern crate rustc_span;

use rustc_driver::Compilation;
use rustc_hir::def::DefKind;
use rustc_hir::def_id::{DefId, LOCAL_CRATE};
use rustc_middle::mir::{
    AggregateKind, Body, Const, Operand, Place, ProjectionElem, Rvalue, StatementKind,
    TerminatorKind,
};
use rustc_middle::ty::print::{with_forced_trimmed_paths, with_no_trimmed_paths};
use rustc_middle::ty::{self, Instance, Ty, TyCtxt, TypingEnv};
use rustc_span::Span;
use std::fmt::Write as _;

mod hirdump;

pub fn esc(s: &str) -> String {
    let mut o = String::with_capacity(s.len() + 2);
    o.push('"');
    for c in s.chars() {
        match c {
            '"' => o.push_str("\\\""),
            '\\' => o.push_str("\\\\"),
            '\n' => o.push_str("\\n"),
            '\r' => o.push_str("\\r"),
            '\t' => o.push_str("\\t"),
            c if (c as u32) < 0x20 => {
                let _ = write!(o, "\\u{:04x}", c as u32);
            }
            c => o.push(c),
        }
    }
    o.push('"');
    o
}

pub fn list(items: Vec<String>) -> String {
    format!("[{}]", items.join(","))
}

pub fn obj(items: Vec<(&str, String)>) -> String {
    let v: Vec<String> = items.into_iter().map(|(k, v)| format!("{}:{}", esc(k), v)).collect();
    format!("{{{}}}", v.join(","))
}

pub fn path(tcx: TyCtxt<'_>, did: DefId) -> String {
    with_no_trimmed_paths!(tcx.def_path_str(did))
}

fn path_args<'tcx>(tcx: TyCtxt<'tcx>, did: DefId, args: ty::GenericArgsRef<'tcx>) -> String {
    with_no_trimmed_paths!(tcx.def_path_str_with_args(did, args))
}

pub fn ty_str(t: Ty<'_>) -> String {
    with_no_trimmed_paths!(format!("{}", t))
}

fn ty_short(t: Ty<'_>) -> String {
    with_forced_trimmed_paths!(format!("{}", t))
}

pub fn span_info(tcx: TyCtxt<'_>, sp: Span) -> (String, usize, bool, String) {
    let sm = tcx.sess.source_map();
    let exp = sp.from_expansion();
    let mname = if exp {
        // outermost user-visible macro of the backtrace (e.g. `unexpected!` rather than `panic_2021!`)
        let bt: Vec<String> = sp.macro_backtrace().map(|d| format!("{}", d.kind.descr())).collect();
        let inner = bt.first().cloned().unwrap_or_default();
        let outer = bt.last().cloned().unwrap_or_default();
        if inner == outer { inner } else { format!("{}<{}", outer, inner) }
    } else {
        String::new()
    };
    // for reporting use the outermost call site so the line is in user code
    let rsp = if exp { sp.source_callsite() } else { sp };
    let loc = sm.lookup_char_pos(rsp.lo());
    let file = match &loc.file.name {
        rustc_span::FileName::Real(r) => {
            r.local_path().map(|p| p.display().to_string()).unwrap_or_else(|| format!("{:?}", r))
        }
        o => format!("{:?}", o),
    };
    (file, loc.line, exp, mname)
}

struct Dumper<'tcx, 'b> {
    tcx: TyCtxt<'tcx>,
    body: &'b Body<'tcx>,
    env: TypingEnv<'tcx>,
}

impl<'tcx, 'b> Dumper<'tcx, 'b> {
    fn adt_of(&self, t: Ty<'tcx>) -> Option<String> {
        match t.peel_refs().kind() {
            ty::Adt(d, _) => Some(path(self.tcx, d.did())),
            _ => None,
        }
    }

    fn place(&self, p: &Place<'tcx>) -> String {
        let mut projs = Vec::new();
        for (base, elem) in p.iter_projections() {
            let bty = base.ty(&self.body.local_decls, self.tcx);
            let s = match elem {
                ProjectionElem::Deref => obj(vec![("k", esc("deref"))]),
                ProjectionElem::Field(f, fty) => {
                    let mut name = String::new();
                    let mut owner = String::new();
                    if let ty::Adt(def, _) = bty.ty.kind() {
                        let v = match bty.variant_index {
                            Some(v) => Some(def.variant(v)),
                            None if def.is_struct() || def.is_union() => Some(def.non_enum_variant()),
                            None => None,
                        };
                        if let Some(v) = v {
                            if let Some(fd) = v.fields.get(f) {
                                name = fd.name.to_string();
                            }
                            owner = format!("{}::{}", path(self.tcx, def.did()), v.name);
                        }
                    }
                    obj(vec![
                        ("k", esc("field")),
                        ("i", f.as_usize().to_string()),
                        ("name", esc(&name)),
                        ("owner", esc(&owner)),
                        ("ty", esc(&ty_str(fty))),
                    ])
                }
                ProjectionElem::Index(l) => {
                    obj(vec![("k", esc("index")), ("l", l.as_usize().to_string())])
                }
                ProjectionElem::ConstantIndex { offset, from_end, .. } => obj(vec![
                    ("k", esc("cindex")),
                    ("off", offset.to_string()),
                    ("from_end", from_end.to_string()),
                ]),
                ProjectionElem::Subslice { .. } => obj(vec![("k", esc("subslice"))]),
                ProjectionElem::Downcast(name, vi) => {
                    let mut en = String::new();
                    let mut vn = name.map(|s| s.to_string()).unwrap_or_default();
                    if let ty::Adt(def, _) = bty.ty.kind() {
                        en = path(self.tcx, def.did());
                        if def.is_enum() {
                            vn = def.variant(vi).name.to_string();
                        }
                    }
                    obj(vec![("k", esc("downcast")), ("enum", esc(&en)), ("variant", esc(&vn))])
                }
                ProjectionElem::OpaqueCast(_) => obj(vec![("k", esc("opaque"))]),
                ProjectionElem::UnwrapUnsafeBinder(_) => obj(vec![("k", esc("unbinder"))]),
            };
            projs.push(s);
        }
        obj(vec![("l", p.local.as_usize().to_string()), ("p", list(projs))])
    }

    fn fn_const(&self, t: Ty<'tcx>) -> Option<String> {
        match t.kind() {
            ty::FnDef(did, args) => {
                let mut items = vec![
                    ("path", esc(&path(self.tcx, *did))),
                    ("full", esc(&path_args(self.tcx, *did, args))),
                ];
                let targs: Vec<String> = args.iter().map(|a| esc(&with_no_trimmed_paths!(format!("{}", a)))).collect();
                items.push(("targs", list(targs)));
                // resolve
                let mut resolved = String::new();
                let mut rfull = String::new();
                let mut rkind = "none";
                if let Ok(args_n) = self.tcx.try_normalize_erasing_regions(self.env, ty::Unnormalized::new_wip(*args)) {
                    if let Ok(Some(inst)) = Instance::try_resolve(self.tcx, self.env, *did, args_n) {
                        resolved = path(self.tcx, inst.def_id());
                        rfull = path_args(self.tcx, inst.def_id(), inst.args);
                        rkind = match inst.def {
                            ty::InstanceKind::Item(_) => "item",
                            ty::InstanceKind::Virtual(..) => "virtual",
                            ty::InstanceKind::Intrinsic(_) => "intrinsic",
                            ty::InstanceKind::ClosureOnceShim { .. } => "closure_once",
                            ty::InstanceKind::FnPtrShim(..) => "fnptr_shim",
                            ty::InstanceKind::ReifyShim(..) => "reify",
                            ty::InstanceKind::DropGlue(..) => "drop_glue",
                            ty::InstanceKind::CloneShim(..) => "clone_shim",
                            _ => "other",
                        };
                    }
                }
                items.push(("resolved", esc(&resolved)));
                items.push(("rfull", esc(&rfull)));
                items.push(("rkind", esc(rkind)));
                // trait info of the unresolved callee
                if let Some(tr) = self.tcx.trait_of_assoc(*did) {
                    items.push(("trait", esc(&path(self.tcx, tr))));
                    if args.len() > 0 {
                        if let Some(st) = args[0].as_type() {
                            items.push(("self_ty", esc(&ty_str(st))));
                            if let Some(a) = self.adt_of(st) {
                                items.push(("self_adt", esc(&a)));
                            }
                            // Iterator::Item of Self, normalised
                            if let Some(iter_tr) = self.tcx.get_diagnostic_item(rustc_span::sym::Iterator) {
                                if tr == iter_tr {
                                    if let Some(item_did) = self
                                        .tcx
                                        .associated_items(iter_tr)
                                        .in_definition_order()
                                        .find(|i| i.is_type())
                                        .map(|i| i.def_id)
                                    {
                                        let proj = Ty::new_projection(self.tcx, item_did, [st]);
                                        if let Ok(n) = self.tcx.try_normalize_erasing_regions(self.env, ty::Unnormalized::new_wip(proj)) {
                                            items.push(("iter_item", esc(&ty_str(n))));
                                        }
                                    }
                                }
                            }
                        }
                    }
                } else if let Some(imp) = self.tcx.impl_of_assoc(*did) {
                    let st = self.tcx.type_of(imp).instantiate(self.tcx, args).skip_norm_wip();
                    items.push(("self_ty", esc(&ty_str(st))));
                    if let Some(a) = self.adt_of(st) {
                        items.push(("self_adt", esc(&a)));
                    }
                }
                Some(obj(items))
            }
            _ => None,
        }
    }

    fn operand(&self, o: &Operand<'tcx>) -> String {
        match o {
            Operand::Copy(p) => {
                let mut s = self.place(p);
                s.pop();
                s.push_str(",\"k\":\"copy\"}");
                s
            }
            Operand::Move(p) => {
                let mut s = self.place(p);
                s.pop();
                s.push_str(",\"k\":\"move\"}");
                s
            }
            Operand::Constant(c) => {
                let t = c.const_.ty();
                let mut items = vec![("k", esc("const")), ("ty", esc(&ty_str(t)))];
                if let Some(f) = self.fn_const(t) {
                    items.push(("fn", f));
                } else {
                    if let ty::Closure(did, _) = t.kind() {
                        items.push(("closure", esc(&path(self.tcx, *did))));
                    }
                    let txt = with_no_trimmed_paths!(format!("{}", c.const_));
                    items.push(("val", esc(&txt)));
                    // evaluated scalar, if any
                    if let Some(si) = c.const_.try_eval_scalar_int(self.tcx, self.env) {
                        items.push(("bits", esc(&format!("{}", si.to_bits_unchecked()))));
                    }
                    if let Const::Unevaluated(u, _) = c.const_ {
                        items.push(("uneval", esc(&path(self.tcx, u.def))));
                        if let Some(p) = u.promoted {
                            items.push(("promoted", p.as_usize().to_string()));
                        }
                    }
                    // statics referenced
                    if let Some(did) = c.check_static_ptr(self.tcx) {
                        items.push(("static", esc(&path(self.tcx, did))));
                    }
                }
                obj(items)
            }
            #[allow(unreachable_patterns)]
            _ => obj(vec![("k", esc("other"))]),
        }
    }

    fn rvalue(&self, r: &Rvalue<'tcx>) -> String {
        match r {
            Rvalue::Use(o, ..) => obj(vec![("k", esc("use")), ("o", self.operand(o))]),
            Rvalue::Repeat(o, _) => obj(vec![("k", esc("repeat")), ("o", self.operand(o))]),
            Rvalue::Ref(_, bk, p) => obj(vec![
                ("k", esc("ref")),
                ("mut", esc(&format!("{:?}", bk))),
                ("place", self.place(p)),
            ]),
            Rvalue::ThreadLocalRef(d) => obj(vec![("k", esc("tls")), ("def", esc(&path(self.tcx, *d)))]),
            Rvalue::RawPtr(_, p) => obj(vec![("k", esc("rawptr")), ("place", self.place(p))]),
            Rvalue::Cast(kind, o, t) => {
                let st = o.ty(&self.body.local_decls, self.tcx);
                obj(vec![
                    ("k", esc("cast")),
                    ("kind", esc(&format!("{:?}", kind))),
                    ("o", self.operand(o)),
                    ("src", esc(&ty_str(st))),
                    ("dst", esc(&ty_str(*t))),
                ])
            }
            Rvalue::BinaryOp(op, box (a, b)) => {
                let at = a.ty(&self.body.local_decls, self.tcx);
                obj(vec![
                    ("k", esc("binop")),
                    ("op", esc(&format!("{:?}", op))),
                    ("a", self.operand(a)),
                    ("b", self.operand(b)),
                    ("ty", esc(&ty_str(at))),
                ])
            }
            Rvalue::UnaryOp(op, a) => {
                let at = a.ty(&self.body.local_decls, self.tcx);
                obj(vec![
                    ("k", esc("unop")),
                    ("op", esc(&format!("{:?}", op))),
                    ("a", self.operand(a)),
                    ("ty", esc(&ty_str(at))),
                ])
            }
            Rvalue::Discriminant(p) => {
                let pt = p.ty(&self.body.local_decls, self.tcx).ty;
                let mut items = vec![("k", esc("discr")), ("place", self.place(p)), ("ty", esc(&ty_str(pt)))];
                if let ty::Adt(def, _) = pt.kind() {
                    if def.is_enum() {
                        items.push(("enum", esc(&path(self.tcx, def.did()))));
                        let vs: Vec<String> = def
                            .discriminants(self.tcx)
                            .map(|(vi, d)| format!("{}:{}", esc(&format!("{}", d.val)), esc(&def.variant(vi).name.to_string())))
                            .collect();
                        items.push(("variants", format!("{{{}}}", vs.join(","))));
                    }
                }
                obj(items)
            }
            Rvalue::Aggregate(box kind, ops) => {
                let opsj = list(ops.iter().map(|o| self.operand(o)).collect());
                match kind {
                    AggregateKind::Array(t) => obj(vec![("k", esc("agg")), ("agg", esc("array")), ("ty", esc(&ty_str(*t))), ("ops", opsj)]),
                    AggregateKind::Tuple => obj(vec![("k", esc("agg")), ("agg", esc("tuple")), ("ops", opsj)]),
                    AggregateKind::Adt(did, vi, _args, _, _) => {
                        let def = self.tcx.adt_def(*did);
                        let v = def.variant(*vi);
                        let fields: Vec<String> = v.fields.iter().map(|f| esc(&f.name.to_string())).collect();
                        obj(vec![
                            ("k", esc("agg")),
                            ("agg", esc("adt")),
                            ("adt", esc(&path(self.tcx, *did))),
                            ("variant", esc(&v.name.to_string())),
                            ("fields", list(fields)),
                            ("ops", opsj),
                        ])
                    }
                    AggregateKind::Closure(did, _) => obj(vec![
                        ("k", esc("agg")),
                        ("agg", esc("closure")),
                        ("closure", esc(&path(self.tcx, *did))),
                        ("ops", opsj),
                    ]),
                    _ => obj(vec![("k", esc("agg")), ("agg", esc("other")), ("ops", opsj)]),
                }
            }
            Rvalue::CopyForDeref(p) => obj(vec![("k", esc("copyderef")), ("place", self.place(p))]),
            _ => obj(vec![("k", esc("other")), ("dbg", esc(&format!("{:?}", r)))]),
        }
    }

    fn span(&self, sp: Span) -> Vec<(&'static str, String)> {
        let (_f, line, exp, m) = span_info(self.tcx, sp);
        let mut v = vec![("line", line.to_string())];
        if exp {
            v.push(("exp", esc(&m)));
        }
        v
    }

    fn dump(&self) -> String {
        let body = self.body;
        let locals: Vec<String> = body
            .local_decls
            .iter()
            .map(|d| {
                let mut items = vec![("ty", esc(&ty_str(d.ty)))];
                if let Some(a) = self.adt_of(d.ty) {
                    items.push(("adt", esc(&a)));
                }
                obj(items)
            })
            .collect();
        let mut names: Vec<String> = Vec::new();
        for vdi in &body.var_debug_info {
            if let rustc_middle::mir::VarDebugInfoContents::Place(p) = &vdi.value {
                names.push(obj(vec![("name", esc(&vdi.name.to_string())), ("place", self.place(p))]));
            }
        }
        let mut blocks = Vec::new();
        for (_bb, data) in body.basic_blocks.iter_enumerated() {
            let mut stmts = Vec::new();
            for st in &data.statements {
                let mut items: Vec<(&str, String)> = Vec::new();
                match &st.kind {
                    StatementKind::Assign(box (p, r)) => {
                        items.push(("k", esc("assign")));
                        items.push(("place", self.place(p)));
                        items.push(("rv", self.rvalue(r)));
                    }
                    StatementKind::SetDiscriminant { place, variant_index } => {
                        items.push(("k", esc("setdiscr")));
                        items.push(("place", self.place(place)));
                        items.push(("variant", variant_index.as_usize().to_string()));
                    }
                    StatementKind::StorageDead(l) => {
                        items.push(("k", esc("dead")));
                        items.push(("l", l.as_usize().to_string()));
                    }
                    StatementKind::StorageLive(l) => {
                        items.push(("k", esc("live")));
                        items.push(("l", l.as_usize().to_string()));
                    }
                    _ => continue,
                }
                items.extend(self.span(st.source_info.span));
                stmts.push(obj(items));
            }
            let term = data.terminator();
            let mut t: Vec<(&str, String)> = Vec::new();
            match &term.kind {
                TerminatorKind::Goto { target } => {
                    t.push(("k", esc("goto")));
                    t.push(("target", target.as_usize().to_string()));
                }
                TerminatorKind::SwitchInt { discr, targets } => {
                    t.push(("k", esc("switch")));
                    t.push(("discr", self.operand(discr)));
                    let dt = discr.ty(&body.local_decls, self.tcx);
                    t.push(("ty", esc(&ty_str(dt))));
                    let vs: Vec<String> = targets.iter().map(|(v, bb)| format!("[{},{}]", esc(&v.to_string()), bb.as_usize())).collect();
                    t.push(("targets", list(vs)));
                    t.push(("otherwise", targets.otherwise().as_usize().to_string()));
                }
                TerminatorKind::UnwindResume => t.push(("k", esc("resume"))),
                TerminatorKind::UnwindTerminate(_) => t.push(("k", esc("terminate"))),
                TerminatorKind::Return => t.push(("k", esc("return"))),
                TerminatorKind::Unreachable => t.push(("k", esc("unreachable"))),
                TerminatorKind::Drop { place, target, unwind, .. } => {
                    t.push(("k", esc("drop")));
                    t.push(("place", self.place(place)));
                    t.push(("target", target.as_usize().to_string()));
                    if let rustc_middle::mir::UnwindAction::Cleanup(bb) = unwind {
                        t.push(("unwind", bb.as_usize().to_string()));
                    }
                }
                TerminatorKind::Call { func, args, destination, target, unwind, fn_span, .. } => {
                    t.push(("k", esc("call")));
                    t.push(("func", self.operand(func)));
                    t.push(("args", list(args.iter().map(|a| self.operand(&a.node)).collect())));
                    let at: Vec<String> = args.iter().map(|a| esc(&ty_str(a.node.ty(&body.local_decls, self.tcx)))).collect();
                    t.push(("arg_tys", list(at)));
                    t.push(("dest", self.place(destination)));
                    let dt = destination.ty(&body.local_decls, self.tcx).ty;
                    t.push(("dest_ty", esc(&ty_str(dt))));
                    if let Some(tg) = target {
                        t.push(("target", tg.as_usize().to_string()));
                    }
                    if let rustc_middle::mir::UnwindAction::Cleanup(bb) = unwind {
                        t.push(("unwind", bb.as_usize().to_string()));
                    }
                    let (_f, l, _e, _m) = span_info(self.tcx, *fn_span);
                    t.push(("fn_line", l.to_string()));
                }
                TerminatorKind::TailCall { func, args, .. } => {
                    t.push(("k", esc("tailcall")));
                    t.push(("func", self.operand(func)));
                    t.push(("args", list(args.iter().map(|a| self.operand(&a.node)).collect())));
                }
                TerminatorKind::Assert { cond, expected, msg, target, unwind } => {
                    t.push(("k", esc("assert")));
                    t.push(("cond", self.operand(cond)));
                    t.push(("expected", expected.to_string()));
                    let mk = format!("{:?}", msg);
                    let kind = mk.split(|c: char| c == '(' || c == ' ' || c == '{').next().unwrap_or("").to_string();
                    t.push(("msg", esc(&kind)));
                    t.push(("msg_full", esc(&mk)));
                    t.push(("target", target.as_usize().to_string()));
                    if let rustc_middle::mir::UnwindAction::Cleanup(bb) = unwind {
                        t.push(("unwind", bb.as_usize().to_string()));
                    }
                }
                TerminatorKind::FalseEdge { real_target, .. } => {
                    t.push(("k", esc("goto")));
                    t.push(("target", real_target.as_usize().to_string()));
                }
                TerminatorKind::FalseUnwind { real_target, .. } => {
                    t.push(("k", esc("goto")));
                    t.push(("target", real_target.as_usize().to_string()));
                }
                TerminatorKind::Yield { .. } => t.push(("k", esc("yield"))),
                TerminatorKind::CoroutineDrop => t.push(("k", esc("codrop"))),
                TerminatorKind::InlineAsm { .. } => t.push(("k", esc("asm"))),
            }
            t.extend(self.span(term.source_info.span));
            let mut b = vec![("stmts", list(stmts)), ("term", obj(t))];
            if data.is_cleanup {
                b.push(("cleanup", "true".into()));
            }
            blocks.push(obj(b));
        }
        obj(vec![
            ("arg_count", body.arg_count.to_string()),
            ("locals", list(locals)),
            ("names", list(names)),
            ("blocks", list(blocks)),
        ])
    }
}

fn dump_crate(tcx: TyCtxt<'_>) -> String {
    let mut bodies = Vec::new();
    let krate = tcx.crate_name(LOCAL_CRATE).to_string();
    for ldid in tcx.mir_keys(()) {
        let did = ldid.to_def_id();
        let kind = tcx.def_kind(did);
        let body: &Body<'_> = match kind {
            DefKind::Fn | DefKind::AssocFn | DefKind::Closure => {
                if tcx.is_constructor(did) {
                    continue;
                }
                tcx.optimized_mir(did)
            }
            DefKind::Const { .. } | DefKind::Static { .. } | DefKind::AssocConst { .. } => tcx.mir_for_ctfe(did),
            _ => continue,
        };
        let env = TypingEnv::post_analysis(tcx, did);
        let d = Dumper { tcx, body, env };
        let (file, line, exp, m) = span_info(tcx, tcx.def_span(did));
        let mut items = vec![
            ("id", esc(&path(tcx, did))),
            ("kind", esc(&format!("{:?}", kind))),
            ("file", esc(&file)),
            ("line", line.to_string()),
        ];
        if exp {
            items.push(("exp", esc(&m)));
        }
        let parent = tcx.parent(did);
        items.push(("parent", esc(&path(tcx, parent))));
        if matches!(kind, DefKind::Fn | DefKind::AssocFn) {
            let sig = tcx.fn_sig(did).instantiate_identity().skip_norm_wip();
            items.push(("sig", esc(&with_no_trimmed_paths!(format!("{}", sig)))));
            items.push(("vis", esc(&format!("{:?}", tcx.visibility(did)))));
            if let Some(imp) = tcx.impl_of_assoc(did) {
                let st = tcx.type_of(imp).instantiate_identity().skip_norm_wip();
                items.push(("impl_self", esc(&ty_str(st))));
                if let Some(tr) = tcx.impl_opt_trait_ref(imp) {
                    let tr = tr.instantiate_identity().skip_norm_wip();
                    items.push(("impl_trait", esc(&path(tcx, tr.def_id))));
                    items.push(("impl_trait_full", esc(&with_no_trimmed_paths!(format!("{}", tr)))));
                }
            }
            items.push(("name", esc(&tcx.item_name(did).to_string())));
        }
        items.push(("mir", d.dump()));
        if matches!(kind, DefKind::Fn | DefKind::AssocFn | DefKind::Closure) {
            let proms = tcx.promoted_mir(did);
            let pj: Vec<String> = proms.iter().map(|pb| Dumper { tcx, body: pb, env }.dump()).collect();
            if !pj.is_empty() {
                items.push(("promoted", list(pj)));
            }
        }
        bodies.push(obj(items));
    }

    // ADT tables
    let mut adts = Vec::new();
    let mut statics = Vec::new();
    let mut impls = Vec::new();
    for id in tcx.hir_crate_items(()).definitions() {
        let did = id.to_def_id();
        match tcx.def_kind(did) {
            DefKind::Struct | DefKind::Enum | DefKind::Union => {
                let def = tcx.adt_def(did);
                let mut vars = Vec::new();
                for v in def.variants() {
                    let fs: Vec<String> = v
                        .fields
                        .iter()
                        .map(|f| {
                            let t = tcx.type_of(f.did).instantiate_identity().skip_norm_wip();
                            obj(vec![("name", esc(&f.name.to_string())), ("ty", esc(&ty_str(t))), ("vis", esc(&format!("{:?}", f.vis)))])
                        })
                        .collect();
                    vars.push(obj(vec![("name", esc(&v.name.to_string())), ("fields", list(fs))]));
                }
                let (file, line, _, _) = span_info(tcx, tcx.def_span(did));
                adts.push(obj(vec![
                    ("path", esc(&path(tcx, did))),
                    ("kind", esc(&format!("{:?}", tcx.def_kind(did)))),
                    ("variants", list(vars)),
                    ("file", esc(&file)),
                    ("line", line.to_string()),
                ]));
            }
            DefKind::Static { mutability, .. } => {
                let t = tcx.type_of(did).instantiate_identity().skip_norm_wip();
                let (file, line, exp, m) = span_info(tcx, tcx.def_span(did));
                let freeze = t.is_freeze(tcx, TypingEnv::post_analysis(tcx, did));
                let mut it = vec![
                    ("path", esc(&path(tcx, did))),
                    ("ty", esc(&ty_str(t))),
                    ("mutable", esc(&format!("{:?}", mutability))),
                    ("freeze", freeze.to_string()),
                    ("file", esc(&file)),
                    ("line", line.to_string()),
                ];
                if exp {
                    it.push(("exp", esc(&m)));
                }
                statics.push(obj(it));
            }
            DefKind::Impl { .. } => {
                let st = tcx.type_of(did).instantiate_identity().skip_norm_wip();
                let mut it = vec![("self_ty", esc(&ty_str(st))), ("path", esc(&path(tcx, did)))];
                if let ty::Adt(d, _) = st.kind() {
                    it.push(("self_adt", esc(&path(tcx, d.did()))));
                }
                if let Some(tr) = tcx.impl_opt_trait_ref(did) {
                    let tr = tr.instantiate_identity().skip_norm_wip();
                    it.push(("trait", esc(&path(tcx, tr.def_id))));
                    it.push(("trait_full", esc(&with_no_trimmed_paths!(format!("{}", tr)))));
                }
                let ms: Vec<String> = tcx
                    .associated_items(did)
                    .in_definition_order()
                    .map(|a| obj(vec![("name", esc(&a.name().to_string())), ("path", esc(&path(tcx, a.def_id)))]))
                    .collect();
                it.push(("items", list(ms)));
                let (file, line, exp, m) = span_info(tcx, tcx.def_span(did));
                it.push(("file", esc(&file)));
                it.push(("line", line.to_string()));
                if exp {
                    it.push(("exp", esc(&m)));
                }
                impls.push(obj(it));
            }
            _ => {}
        }
    }
    let hir = hirdump::dump(tcx);
    let _ = ty_short;
    obj(vec![
        ("crate", esc(&krate)),
        ("bodies", list(bodies)),
        ("adts", list(adts)),
        ("statics", list(statics)),
        ("impls", list(impls)),
        ("hir", hir),
    ])
}

struct Cb;

impl rustc_driver::Callbacks for Cb {
    fn after_analysis<'tcx>(&mut self, _c: &rustc_interface::interface::Compiler, tcx: TyCtxt<'tcx>) -> Compilation {
        let out = match std::env::var("SSL_FACTS_OUT") {
            Ok(o) => o,
            Err(_) => return Compilation::Continue,
        };
        let krate = tcx.crate_name(LOCAL_CRATE).to_string();
        let only = std::env::var("SSL_FACTS_CRATES").unwrap_or_else(|_| "simplesl,simplesl_parser,simplesl_macros,ssl_fixtures".into());
        if !only.split(',').any(|c| c == krate) {
            return Compilation::Continue;
        }
        let is_test = tcx.sess.opts.test;
        let ctype = tcx.crate_types().first().map(|c| format!("{:?}", c)).unwrap_or_default();
        let kind = format!("{}{}", ctype.to_lowercase(), if is_test { "-test" } else { "" });
        let json = dump_crate(tcx);
        let _ = std::fs::create_dir_all(&out);
        // distinguish multiple targets of same crate/kind by the crate's main source file stem
        let stem = tcx
            .sess
            .local_crate_source_file()
            .and_then(|p| p.local_path().and_then(|p| p.file_stem().map(|s| s.to_string_lossy().to_string())))
            .unwrap_or_default();
        let fname = format!("{}/{}.{}.{}.json", out, krate, kind, stem);
        let tmp = format!("{}.tmp{}", fname, std::process::id());
        std::fs::write(&tmp, json).expect("write facts");
        std::fs::rename(&tmp, &fname).expect("rename facts");
        Compilation::Continue
    }
}

fn main() {
    let mut args: Vec<String> = std::env::args().collect();
    // RUSTC_WORKSPACE_WRAPPER: argv[1] is the real rustc
    if args.len() > 1 && (args[1].ends_with("rustc") || args[1].contains("/rustc")) {
        args.remove(1);
    }
    rustc_driver::run_compiler(&args, &mut Cb);
}
