#!/bin/bash
# run every claimed property's quick check; non-zero exit if any of them fails on the current tree
cd "$(dirname "$0")/.."
rc=0
for p in $(python3 -c "import json;print(' '.join(c['property_id'] for c in json.load(open('MANIFEST.json'))['checks']))"); do
  out=$(./check $p 2>&1); if [ $? -ne 0 ]; then echo "FAIL $p"; echo "$out" | grep -E "^\[R|VIOLATION|CANNOT" | head -5; rc=1; fi
done
[ $rc -eq 0 ] && echo "all quick checks pass"
exit $rc
