#!/bin/bash
# run every claimed property's quick check on each benign (behaviour-preserving) edit: any report is a false alarm
cd "$(dirname "$0")/.."
for f in benign/*.diff benign/agents/*.diff; do
  out=$(tools/mutate.py "$f" 2>&1 | grep -E "^\[R-|CAUGHT BY|patch does not|CANNOT" | cut -c1-230 | sort -u)
  if echo "$out" | grep -q "CAUGHT BY: nothing"; then echo "silent  $f"; else echo "ALARM   $f"; echo "$out" | head -6; fi
done
