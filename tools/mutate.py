#!/usr/bin/env python3
"""Apply a patch to a scratch copy of /repo (outside /repo and /verif), run checks against it, remove the copy.

  tools/mutate.py <patch.diff> [C02 C12 ...]        run the named properties' quick checks (default: all claimed)
  tools/mutate.py --rule stop.run <patch.diff>       run a single rule function
Exit 0 if at least one check reported a violation (the mutant was caught), 1 otherwise.
"""
import json
import os
import shutil
import subprocess
import sys
import tempfile

V = os.path.dirname(os.path.dirname(os.path.abspath(__file__)))


def make_copy(patch, reverse=False):
    d = tempfile.mkdtemp(prefix="ssl-mut-")
    for part in ["src", "parser", "macros", "docs", "examples", "tests", "example_scripts", "Cargo.toml", "Cargo.lock", "README.md"]:
        s = os.path.join("/repo", part)
        if os.path.isdir(s):
            shutil.copytree(s, os.path.join(d, part), ignore=shutil.ignore_patterns("target"))
        elif os.path.exists(s):
            shutil.copy2(s, os.path.join(d, part))
    cmd = ["patch", "-p1", "--no-backup-if-mismatch", "-s"] + (["-R"] if reverse else []) + ["-i", os.path.abspath(patch)]
    r = subprocess.run(cmd, cwd=d, stdout=subprocess.PIPE, stderr=subprocess.STDOUT, text=True)
    if r.returncode != 0:
        shutil.rmtree(d, ignore_errors=True)
        raise SystemExit("patch does not apply: %s\n%s" % (patch, r.stdout))
    return d


def main():
    args = sys.argv[1:]
    rule = None
    reverse = False
    if args and args[0] == "--rule":
        rule = args[1]
        args = args[2:]
    if args and args[0] == "-R":
        reverse = True
        args = args[1:]
    patch = args[0]
    props = args[1:]
    d = make_copy(patch, reverse)
    out = tempfile.mkdtemp(prefix="ssl-mut-out-")
    env = dict(os.environ, SSL_REPO=d, SSL_OUT=out)
    caught = []
    try:
        if rule:
            r = subprocess.run([os.path.join(V, "tools/runrule.py"), rule], env=env, stdout=subprocess.PIPE, stderr=subprocess.STDOUT, text=True)
            print(r.stdout)
            if "[R-" in r.stdout or "violations 0" not in r.stdout:
                caught.append(rule)
        else:
            if not props:
                props = [c["property_id"] for c in json.load(open(os.path.join(V, "MANIFEST.json")))["checks"]]
            for p in props:
                r = subprocess.run([os.path.join(V, "check"), p, "--tier", "quick"], env=env, stdout=subprocess.PIPE, stderr=subprocess.STDOUT, text=True)
                viol = [l for l in r.stdout.splitlines() if l.startswith("VIOLATION")]
                if r.returncode != 0:
                    caught.append(p)
                    print("== %s: exit %d" % (p, r.returncode))
                    print("\n".join(l for l in r.stdout.splitlines() if not l.startswith("   ")))
                else:
                    print("== %s: silent" % p)
    finally:
        shutil.rmtree(d, ignore_errors=True)
        shutil.rmtree(out, ignore_errors=True)
    print("CAUGHT BY: %s" % (" ".join(caught) if caught else "nothing"))
    return 0 if caught else 1


if __name__ == "__main__":
    sys.exit(main())
