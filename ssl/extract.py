"""Extraction of facts from /repo's current working tree (cached by content hash).

Everything here reads the *current* sources under REPO on every run: the cache key is a hash of
their contents, so an edited byte produces a new extraction.
"""
import fcntl
import hashlib
import json
import os
import shutil
import subprocess
import sys
import time

VERIF = os.path.dirname(os.path.dirname(os.path.abspath(__file__)))
REPO = os.environ.get("SSL_REPO", "/repo")
CACHE = os.path.join(VERIF, ".cache")
DRIVER = os.path.join(VERIF, "tools/ssl-facts/target/release/ssl-facts")
GRAMMAR_BIN = os.path.join(VERIF, "tools/ssl-grammar/target/release/ssl-grammar")

TREE_PARTS = ["src", "parser", "macros", "docs", "examples", "tests", "example_scripts",
              "Cargo.toml", "Cargo.lock", "README.md"]


def _iter_files(root, parts):
    for part in parts:
        p = os.path.join(root, part)
        if os.path.isfile(p):
            yield p
        elif os.path.isdir(p):
            for dp, dn, fn in os.walk(p):
                dn[:] = sorted(d for d in dn if d not in ("target", ".git"))
                for f in sorted(fn):
                    yield os.path.join(dp, f)


def tree_hash(root=None, parts=None):
    root = root or REPO
    h = hashlib.sha256()
    for f in _iter_files(root, parts or TREE_PARTS):
        h.update(os.path.relpath(f, root).encode())
        h.update(b"\0")
        with open(f, "rb") as fh:
            h.update(hashlib.sha256(fh.read()).digest())
    return h.hexdigest()[:20]


def _sysroot():
    return subprocess.check_output(["rustc", "+nightly", "--print", "sysroot"], text=True).strip()


class ExtractionError(Exception):
    pass


def _run_driver(src_root, out_dir, target_dir, all_targets, crates, log):
    env = dict(os.environ)
    env["LD_LIBRARY_PATH"] = _sysroot() + "/lib" + (":" + env["LD_LIBRARY_PATH"] if env.get("LD_LIBRARY_PATH") else "")
    env["RUSTFLAGS"] = "-Zmir-opt-level=0 -Coverflow-checks=on -Cdebug-assertions=on -Awarnings"
    env["RUSTC_WORKSPACE_WRAPPER"] = DRIVER
    env["SSL_FACTS_OUT"] = out_dir
    env["SSL_FACTS_CRATES"] = ",".join(crates)
    env["CARGO_TARGET_DIR"] = target_dir
    env["CARGO_NET_OFFLINE"] = "true"
    env.pop("RUSTC_WRAPPER", None)
    # cargo's freshness cache would skip the wrapper for members: drop their fingerprints
    fp = os.path.join(target_dir, "debug", ".fingerprint")
    if os.path.isdir(fp):
        for d in os.listdir(fp):
            if any(d.startswith(c + "-") or d.startswith(c.replace("_", "-") + "-") for c in crates):
                shutil.rmtree(os.path.join(fp, d), ignore_errors=True)
    cmd = ["cargo", "+nightly", "check", "--offline", "--workspace"]
    if all_targets:
        cmd.append("--all-targets")
    t0 = time.time()
    r = subprocess.run(cmd, cwd=src_root, env=env, stdout=subprocess.PIPE, stderr=subprocess.STDOUT, text=True)
    with open(log, "w") as fh:
        fh.write(r.stdout)
    if r.returncode != 0:
        raise ExtractionError("cargo check with the facts driver failed (the tree does not compile?) - see %s\n%s"
                              % (log, "\n".join(r.stdout.splitlines()[-30:])))
    return time.time() - t0


def facts_dir(tier="quick", root=None):
    """Return the directory with the JSON facts for the current tree, extracting if needed."""
    root = root or REPO
    all_targets = tier == "thorough"
    th = tree_hash(root)
    tools = tree_hash(os.path.join(VERIF, "tools"), ["ssl-facts/src", "ssl-grammar/src"])[:8]
    key = "%s-%s-%s" % (th, tools, "all" if all_targets else "lib")
    os.makedirs(CACHE, exist_ok=True)
    out = os.path.join(CACHE, "facts", key)
    # SSL_WORKER: parallel evaluation of many scratch copies (tools/recheck_detection.py) - one lock and one cargo target
    # directory per worker; the registered checks never set it
    worker = os.environ.get("SSL_WORKER", "")
    lock = open(os.path.join(CACHE, "extract%s.lock" % worker), "w")
    fcntl.flock(lock, fcntl.LOCK_EX)
    try:
        done = os.path.join(out, "DONE")
        if os.path.exists(done):
            return out, th
        if not os.path.exists(DRIVER):
            raise ExtractionError("driver not built: run MANIFEST.setup_cmd (./setup.sh)")
        shutil.rmtree(out, ignore_errors=True)
        os.makedirs(out)
        tgt = os.path.join(CACHE, "target-%s%s" % ("all" if all_targets else "lib", worker))
        crates = ["simplesl", "simplesl_parser", "simplesl_macros"]
        secs = _run_driver(root, out, tgt, all_targets, crates, os.path.join(out, "cargo.log"))
        need = ["simplesl.rlib.lib.json", "simplesl_parser.rlib.lib.json", "simplesl.executable.main.json"]
        missing = [n for n in need if not os.path.exists(os.path.join(out, n))]
        if missing:
            # warm-dir skip: retry once in a fresh target dir
            shutil.rmtree(tgt, ignore_errors=True)
            secs = _run_driver(root, out, tgt, all_targets, crates, os.path.join(out, "cargo.log"))
            missing = [n for n in need if not os.path.exists(os.path.join(out, n))]
            if missing:
                raise ExtractionError("facts files missing after extraction: %s" % missing)
        # grammar + source tables
        _run_tool(GRAMMAR_BIN, [os.path.join(root, "parser/src/simplesl.pest")], os.path.join(out, "grammar.json"))
        if tree_hash(root) != th:
            raise ExtractionError("the tree changed while facts were being extracted")
        with open(done, "w") as fh:
            json.dump({"tree_hash": th, "extract_s": secs, "all_targets": all_targets}, fh)
        _prune(os.path.join(CACHE, "facts"), keep=24 if worker else 6)
        return out, th
    finally:
        fcntl.flock(lock, fcntl.LOCK_UN)
        lock.close()


def _run_tool(binary, args, out_file):
    if not os.path.exists(binary):
        raise ExtractionError("tool not built: %s (run ./setup.sh)" % binary)
    r = subprocess.run([binary] + args, stdout=subprocess.PIPE, stderr=subprocess.PIPE, text=True)
    if r.returncode != 0:
        raise ExtractionError("%s failed: %s" % (binary, r.stderr[-2000:]))
    with open(out_file, "w") as fh:
        fh.write(r.stdout)


def _prune(d, keep):
    try:
        ents = sorted((os.path.getmtime(os.path.join(d, e)), e) for e in os.listdir(d))
    except OSError:
        return
    import time
    now = time.time()
    for mt, e in ents[:-keep]:
        if now - mt > 1800:     # a younger entry may be in use by a check running concurrently on another tree
            shutil.rmtree(os.path.join(d, e), ignore_errors=True)


def fixture_facts():
    """Facts of the positive-control crate /verif/fixtures (cached by its own hash + driver mtime)."""
    froot = os.path.join(VERIF, "fixtures")
    th = tree_hash(froot, ["src", "Cargo.toml"])
    drv = str(int(os.path.getmtime(DRIVER))) if os.path.exists(DRIVER) else "0"
    out = os.path.join(CACHE, "fixture-facts", th + "-" + drv)
    os.makedirs(CACHE, exist_ok=True)
    lock = open(os.path.join(CACHE, "extract-fx.lock"), "w")
    fcntl.flock(lock, fcntl.LOCK_EX)
    try:
        if os.path.exists(os.path.join(out, "DONE")):
            return out
        shutil.rmtree(os.path.join(CACHE, "fixture-facts"), ignore_errors=True)
        os.makedirs(out)
        tgt = os.path.join(CACHE, "target-fixtures")
        _run_driver(froot, out, tgt, False, ["ssl_fixtures"], os.path.join(out, "cargo.log"))
        if not os.path.exists(os.path.join(out, "ssl_fixtures.rlib.lib.json")):
            shutil.rmtree(tgt, ignore_errors=True)
            _run_driver(froot, out, tgt, False, ["ssl_fixtures"], os.path.join(out, "cargo.log"))
        if not os.path.exists(os.path.join(out, "ssl_fixtures.rlib.lib.json")):
            raise ExtractionError("fixture facts missing")
        open(os.path.join(out, "DONE"), "w").write("ok")
        return out
    finally:
        fcntl.flock(lock, fcntl.LOCK_UN)
        lock.close()
