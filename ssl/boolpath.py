"""Symbolic enumeration of the acyclic paths of one MIR body, tracking only what a *condition* is made of:

* where a value comes from: parameter i (through references, copies, moves, `clone`, `deref`, `borrow`);
* `Type::<query>(x)` with x from parameter i  ->  the option-valued atom (query, i);
* `Option::is_some / is_none` of such an atom, `discriminant()` of it, `!b`  ->  a boolean literal (atom, polarity);
* boolean constants (drop flags, `true` / `false` results).

A `SwitchInt` on a literal forks the path with an assumption (contradictory assumptions prune the path); on an unknown
it forks without one.  Nothing is executed: the result is, per path to `return`, the set of assumptions, the symbolic
return value and the events (`unwrap`s of atoms) met on the way, each with the assumptions in force at that point.

Used by R-QUERYIMPL.  Bodies with loops are refused (CannotDecide) - conditions are straight-line code."""

QUERY_PREFIX = "variable::r#type::Type::"
PASS_THROUGH = ("std::clone::Clone::clone", "std::ops::Deref::deref", "std::borrow::Borrow::borrow", "std::convert::AsRef::as_ref",
                "std::borrow::ToOwned::to_owned", "std::convert::Into::into", "std::convert::From::from")


class CannotDecide(Exception):
    pass


class Path:
    __slots__ = ("assume", "ret", "events")

    def __init__(self, assume, ret, events):
        self.assume = assume      # {atom: bool}  atom = (query, param index); True = the query answers Some
        self.ret = ret            # ("const", bool) | ("lit", atom, polarity) | ("unknown",)
        self.events = events      # [(kind, atom, {assumptions then})]


def _operand_val(env, o):
    if not isinstance(o, dict):
        return ("unknown",)
    k = o.get("k")
    if k == "const":
        if o.get("ty") == "bool":
            return ("const", o.get("bits") == "1" or o.get("val") == "true")
        return ("unknown",)
    if k in ("copy", "move"):
        return _place_val(env, o)
    return ("unknown",)


def _place_val(env, pl):
    """value of a place: dereferences are transparent, a field projection selects the member of a tracked tuple"""
    v = env.get(pl.get("l"), ("unknown",))
    for p in pl.get("p", []):
        if p.get("k") == "deref":
            continue
        if p.get("k") == "field" and v[0] == "tuple" and isinstance(p.get("i"), int) and p["i"] < len(v[1]):
            v = v[1][p["i"]]
            continue
        return ("unknown",)
    return v


def enumerate_paths(body, queries=None, cap=4000, resolve=None, args=None, assume0=None, depth=0):
    """-> [Path].  `queries`: names of Type queries to treat as atoms (None = every Type::* call returning an Option).
    `resolve(callee path) -> Body | None`: crate-local helper functions that are entered (two levels) with the caller's
    symbolic arguments `args`; their paths fork the caller's path."""
    blocks = body.blocks
    out = []
    env0 = {i: (args[i - 1] if args is not None and i - 1 < len(args) else ("param", i)) for i in range(1, body.arg_count + 1)}
    work = [(0, env0, dict(assume0 or {}), [], frozenset())]
    steps = 0
    while work:
        bb, env, assume, events, seen = work.pop()
        steps += 1
        if steps > cap:
            raise CannotDecide("more than %d path steps in %s" % (cap, body.id))
        if bb in seen:
            raise CannotDecide("%s has a loop through bb%d: not a straight-line condition" % (body.id, bb))
        seen = seen | {bb}
        env = dict(env)
        b = blocks[bb]
        for s in b["stmts"]:
            if s["k"] != "assign":
                continue
            pl = s["place"]
            if pl["p"]:
                continue
            rv = s["rv"]
            k = rv.get("k")
            if k == "use":
                env[pl["l"]] = _operand_val(env, rv["o"])
            elif k == "ref":
                env[pl["l"]] = _place_val(env, rv["place"])
            elif k == "agg" and rv.get("agg") == "tuple":
                env[pl["l"]] = ("tuple", tuple(_operand_val(env, o) for o in rv.get("ops", [])))
            elif k in ("discr", "discriminant"):
                v = _place_val(env, rv.get("place") or rv.get("o") or {})
                env[pl["l"]] = ("disc", v[1]) if v[0] == "query" else ("unknown",)
            elif k in ("unop", "unary") and rv.get("op") in ("Not", "not"):
                v = _operand_val(env, rv.get("a") or rv.get("o"))
                if v[0] == "const":
                    env[pl["l"]] = ("const", not v[1])
                elif v[0] == "lit":
                    env[pl["l"]] = ("lit", v[1], not v[2])
                else:
                    env[pl["l"]] = ("unknown",)
            elif k == "cast":
                env[pl["l"]] = _operand_val(env, rv.get("o"))
            else:
                env[pl["l"]] = ("unknown",)
        t = b["term"]
        k = t["k"]
        if k == "return":
            out.append(Path(assume, env.get(0, ("unknown",)), events))
        elif k in ("goto",):
            work.append((t["target"], env, assume, events, seen))
        elif k == "drop":
            work.append((t["target"], env, assume, events, seen))
        elif k == "assert":
            work.append((t["target"], env, assume, events, seen))
        elif k == "call":
            fn = t["func"].get("fn") or {}
            path = fn.get("resolved") or fn.get("path") or ""
            gen = fn.get("path") or ""
            args = [_operand_val(env, a) for a in t.get("args", [])]
            dest = t.get("dest") or {}
            val = ("unknown",)
            a0 = args[0] if args else ("unknown",)
            if path.startswith(QUERY_PREFIX) and a0[0] == "param" and len(args) == 1:
                q = path[len(QUERY_PREFIX):]
                if (queries is None or q in queries) and "Option<" in (body.locals[dest["l"]]["ty"] if dest and not dest.get("p") else ""):
                    val = ("query", (q, a0[1]))
            elif gen in PASS_THROUGH or path in PASS_THROUGH:
                val = a0 if a0[0] in ("param", "query") else ("unknown",)
            elif gen.startswith("std::option::Option::<T>::is_some") and not gen.endswith("_and") and a0[0] == "query":
                val = ("lit", a0[1], True)
            elif gen.startswith("std::option::Option::<T>::is_none") and not gen.endswith("_or") and a0[0] == "query":
                val = ("lit", a0[1], False)
            elif gen in ("std::option::Option::<T>::unwrap", "std::option::Option::<T>::expect") and a0[0] == "query":
                events = events + [("unwrap", a0[1], dict(assume), t.get("line"))]
            elif gen == "std::option::Option::<T>::as_ref" and a0[0] == "query":
                val = a0
            elif gen in ("std::option::Option::<T>::is_some_and", "std::option::Option::<T>::map_or") and a0[0] == "query" and (
                    gen.endswith("is_some_and") or (len(args) > 1 and args[1] == ("const", False))):
                val = ("implies", a0[1])      # true only if the query answered Some
            elif resolve is not None and depth < 2 and not path.startswith(("std::", "core::", "alloc::")) and any(a[0] in ("param", "query") for a in args):
                hb = resolve(path)
                if hb is not None and hb.arg_count == len(args):
                    try:
                        sub = enumerate_paths(hb, queries, cap, resolve, args, assume, depth + 1)
                    except CannotDecide:
                        sub = None
                    if sub:
                        for sp in sub:
                            env2 = dict(env)
                            if dest and not dest.get("p"):
                                env2[dest["l"]] = sp.ret if sp.ret[0] in ("const", "lit", "implies", "query", "param") else ("unknown",)
                            if t.get("target") is not None:
                                work.append((t["target"], env2, dict(sp.assume), events + sp.events, seen))
                        continue
            if dest and not dest.get("p"):
                env[dest["l"]] = val
            if t.get("target") is not None:
                work.append((t["target"], env, assume, events, seen))
        elif k == "switch":
            d = t["discr"]
            v = _operand_val(env, d)
            targets = [(str(val), tg) for val, tg in t["targets"]]
            other = t.get("otherwise")
            if v[0] == "const":
                want = "1" if v[1] else "0"
                tg = dict(targets).get(want, other)
                if tg is not None:
                    work.append((tg, env, assume, events, seen))
            elif v[0] in ("lit", "disc"):
                atom = v[1]
                # value -> truth of "atom is Some"
                def truth(val):
                    if v[0] == "disc":
                        return val == "1"
                    return (val == "1") == v[2]
                succs = [(val, tg) for val, tg in targets]
                covered = {val for val, _ in targets}
                if other is not None:
                    rest = [x for x in ("0", "1") if x not in covered]
                    for x in rest:
                        succs.append((x, other))
                for val, tg in succs:
                    tr = truth(val)
                    if atom in assume and assume[atom] != tr:
                        continue
                    a2 = dict(assume)
                    a2[atom] = tr
                    work.append((tg, env, a2, events, seen))
            elif v[0] == "implies":
                atom = v[1]
                succs = list(targets)
                covered = {val for val, _ in targets}
                if other is not None:
                    succs += [(x, other) for x in ("0", "1") if x not in covered]
                for val, tg in succs:
                    if val == "1":
                        if assume.get(atom) is False:
                            continue
                        a2 = dict(assume)
                        a2[atom] = True
                        work.append((tg, env, a2, events, seen))
                    else:
                        work.append((tg, env, assume, events, seen))
            else:
                for tg in {tg for _, tg in targets} | ({other} if other is not None else set()):
                    work.append((tg, env, assume, events, seen))
        elif k in ("unreachable", "resume", "abort", "terminate", "unwind_resume"):
            pass
        else:
            # unknown terminator kinds with a single target are followed; anything else ends the path
            if t.get("target") is not None:
                work.append((t["target"], env, assume, events, seen))
    return out
