"""R-EVALORDER: order (dominance), exactly-once (one call site, outside any cycle), short-circuit (control dependence)
and branch exclusivity (mutual unreachability) of operand evaluation in the Exec impls."""
from ..engine import RuleResult
from ..model import op_local

EXEC = "instruction::Exec::exec"
IEXEC = "interpreter::Interpreter::<'a>::exec"
P = "<instruction::%s as instruction::Exec>::exec"

SEQ = {   # body -> ordered receiver fields; each evaluated exactly once, each dominating the next
    P % "bin_op::BinOperation": (["lhs", "rhs"], "left operand, then right operand (also: target then value of an assignment, function then arguments of a call)"),
    P % "array_repeat::ArrayRepeat": (["value", "len"], "[value; len]"),
    P % "reduce::Reduce": (["iter", "initial_value", "function"], "it $ init f"),
}
BRANCH = {  # body -> (condition field, branch field A, branch field B)
    P % "control_flow::if_else::IfElse": ("condition", "if_true", "if_false"),
    P % "control_flow::set_if_else::SetIfElse": ("expression", "if_match", "else_instruction"),
}
DECIDES = {   # the run-time test that chooses the branch
    P % "control_flow::if_else::IfElse": ["variable::Variable::into_bool"],
    P % "control_flow::set_if_else::SetIfElse": ["variable::r#type::Type::matches"],
}
SHORT = {"instruction::bin_op::logic::and::exec": "&&", "instruction::bin_op::logic::or::exec": "||"}
BIND = {    # value evaluated before the binding is inserted
    P % "set::Set": "instruction",
    P % "destruct_tuple::DestructTuple": "instruction",
}
SEQUENCE_BODIES = {   # evaluate a slice of instructions front to back through Interpreter::exec / a forward iterator
    P % "array::Array": "instructions", P % "tuple::Tuple": "elements", P % "block::Block": "instructions",
}
REORDERING = ("rev", "sort", "sort_by", "sort_unstable", "par_iter", "rchunks", "rsplit", "reverse", "sort_by_key", "swap", "rotate_left", "rotate_right")


def recv(b, o, depth=0):
    """(base local, tuple of field names) the operand `o` was borrowed / read from"""
    l = op_local(o)
    if l is None or depth > 6:
        return None
    for d in b.def_sites(l):
        if d[1] == "assign":
            rv = d[2]["rv"]
            if rv["k"] in ("ref", "copyderef"):
                pl = rv["place"]
                names = tuple((e.get("name") or str(e.get("i"))) for e in pl["p"] if e["k"] == "field")
                if names:
                    return (pl["l"], names)
                return recv(b, {"k": "copy", "l": pl["l"], "p": []}, depth + 1)
            if rv["k"] == "use":
                o2 = rv["o"]
                if o2.get("k") in ("copy", "move"):
                    if o2.get("p"):
                        names = tuple((e.get("name") or str(e.get("i"))) for e in o2["p"] if e["k"] == "field")
                        if names:
                            return (o2["l"], names)
                    return recv(b, {"k": "copy", "l": o2["l"], "p": []}, depth + 1)
        elif d[1] == "call":
            p = d[2]["func"].get("fn", {}).get("path", "")
            if p.rsplit("::", 1)[-1] in ("deref", "as_ref", "borrow", "iter", "into_iter"):
                return recv(b, d[2]["args"][0], depth + 1)
    return (l, ())


class Site:
    """an operand evaluation: a real exec call, or one that happens inside a helper called from block `bb` (k orders
    several evaluations that the same helper call performs)"""
    def __init__(self, bb, line, k=0, via=None):
        self.bb, self.line, self.k, self.via = bb, line, k, via


def _own_execs(b):
    out = {}
    for c in b.calls:
        if c.path == EXEC and c.args:
            r = recv(b, c.args[0])
        elif c.callee == IEXEC and len(c.args) > 1:
            r = recv(b, c.args[1])
        else:
            continue
        name = r[1][0] if (r and r[1]) else "<param>"
        out.setdefault(name, []).append(Site(c.bb, c.line))
    return out


def field_execs(b, lib=None):
    """field name -> [Site] for exec calls whose receiver is self.<field>[...]; evaluations performed by a helper that was
    extracted from this function (owned by it alone, called with self) are attributed to the helper's call site"""
    out = _own_execs(b)
    if lib is None:
        return out
    from ..owners import for_crate, base
    own = for_crate(lib)
    for c in b.calls:
        if not c.callee or c.callee == b.id:
            continue
        hb = lib.body(c.callee)
        if hb is None or own.of(c.callee) != frozenset({base(b.id)}) or base(c.callee) == base(b.id):
            continue
        inner = _own_execs(hb)
        if not inner:
            continue
        # order of the helper's evaluations: by dominance inside the helper
        flat = [(f, s) for f, ss in inner.items() for s in ss]
        flat.sort(key=lambda fs: len(hb.dom[fs[1].bb]))
        for k, (f, s2) in enumerate(flat):
            out.setdefault(f, []).append(Site(c.bb, c.line, k + 1, via=c.callee))
    return out


def in_cycle(b, bb):
    return bb in b.reachable_after(bb)


def run(ctx):
    res = RuleResult("R-EVALORDER", "operand evaluation order by dominance, exactly-once by call-site count outside cycles, "
                                    "short-circuit by control dependence, branch exclusivity by mutual unreachability")
    lib = ctx.facts.lib

    def once(b, fe, f, key):
        cs = fe.get(f, [])
        if len(cs) != 1:
            res.bad(key, "%s evaluates operand `%s` at %d call sites (exactly one expected)" % (b.id, f, len(cs)), b.where())
            return None
        if in_cycle(b, cs[0].bb):
            res.bad(key, "%s evaluates operand `%s` inside a loop (may run more than once)" % (b.id, f), b.where(cs[0].line))
            return None
        return cs[0]

    def at_most_once(b, sites):
        """no site can be followed by another site of the same operand, none lies on a cycle"""
        for c in sites:
            if in_cycle(b, c.bb):
                return False
            after = b.reachable_after(c.bb)
            if any(o.bb in after or (o.bb == c.bb and o.k > c.k) for o in sites if o is not c):
                return False
        return True

    def before(b, first, second):
        """on every path each `second` site is preceded by a `first` site, and never followed by one"""
        gates = {c.bb for c in first}
        free = b.reachable(0, avoid=gates)
        if any(c.bb in free for c in second):
            return False
        for c in second:
            after = b.reachable_after(c.bb)
            if any(o.bb in after or (o.bb == c.bb and o.k > c.k) for o in first):
                return False
            # evaluated by the same helper call: the first operand must come earlier inside the helper
            if any(o.bb == c.bb for o in first) and not any(o.bb == c.bb and o.k < c.k for o in first) and not any(o.bb != c.bb for o in first):
                return False
        return True

    for bid, (fields, why) in SEQ.items():
        b = lib.body(bid)
        if not res.anchor(b is not None, bid):
            continue
        fe = field_execs(b, lib)
        okf = True
        for f in fields:
            key = "once:%s|%s" % (bid, f)
            if not fe.get(f):
                res.bad(key, "%s never evaluates operand `%s`" % (bid, f), b.where())
                okf = False
            elif not at_most_once(b, fe[f]):
                res.bad(key, "%s can evaluate operand `%s` more than once on one path" % (bid, f), b.where(fe[f][0].line))
                okf = False
            else:
                res.ok(key, b.where(fe[f][0].line), "%d site(s), at most one per path" % len(fe[f]))
        extra = [f for f in fe if f not in fields]
        if extra:
            res.bad("order:%s|extra" % bid, "%s evaluates unexpected operands %s" % (bid, extra), b.where())
        if not okf:
            continue
        for f1, f2 in zip(fields, fields[1:]):
            key = "order:%s|%s<%s" % (bid, f1, f2)
            if before(b, fe[f1], fe[f2]):
                res.ok(key, b.where(fe[f2][0].line), why)
            else:
                res.bad(key, "%s: `%s` must be evaluated before `%s` on every path (%s)" % (bid, f1, f2, why), b.where(fe[f2][0].line))
    # all kernels / assign run after the right operand
    b = lib.body(P % "bin_op::BinOperation")
    if b is not None:
        fe = field_execs(b, lib)
        if fe.get("rhs") and fe.get("lhs"):
            rhs_gates = {c.bb for c in fe["rhs"]}
            lhs_gates = {c.bb for c in fe["lhs"]}
            late = [c for c in b.calls if c.callee.startswith("instruction::") and c.callee.rsplit("::", 1)[-1] in ("exec", "try_exec")
                    and c.callee not in SHORT and c.bb not in rhs_gates and c.bb not in lhs_gates]
            free = b.reachable(0, avoid=rhs_gates)
            bad = [c for c in late if c.bb in free]
            if bad:
                res.bad("order:BinOperation|rhs<kernel", "kernel %s can run before the right operand is evaluated" % bad[0].callee, b.where(bad[0].line))
            else:
                res.ok("order:BinOperation|rhs<kernel", b.where(), "%d kernels (incl. assign: value read after the right operand)" % len(late))
            sc = [c for c in b.calls if c.callee in SHORT]
            free_l = b.reachable(0, avoid=lhs_gates)
            if len(sc) == 2 and all(c.bb not in free_l and c.bb in free for c in sc):
                res.ok("short:BinOperation|dispatch", b.where(), "&& / || are entered after the left and before the right operand was evaluated")
            else:
                res.bad("short:BinOperation|dispatch", "BinOperation::exec evaluates the right operand of && / || eagerly (or skips the left)", b.where())

    for bid, tok in SHORT.items():
        b = lib.body(bid)
        if not res.anchor(b is not None, bid):
            continue
        ex = [c for c in b.calls if c.path == EXEC]
        key = "short:%s" % bid
        if len(ex) != 1:
            res.bad(key, "%s must evaluate the right operand at exactly one site (found %d)" % (bid, len(ex)), b.where())
            continue
        c = ex[0]
        # control dependent on a switch: a return is reachable from entry avoiding the call
        rets = b.return_blocks()
        skip = any(r in b.reachable(0, avoid=[c.bb]) for r in rets)
        sw = [d for d in b.dom[c.bb] if b.blocks[d]["term"]["k"] == "switch"]
        if skip and sw and not in_cycle(b, c.bb):
            res.ok(key, b.where(c.line), "right operand of %s evaluated at most once, only on one arm of the test of the left value" % tok)
        else:
            res.bad(key, "%s: the right operand of %s is evaluated unconditionally (no short-circuit)" % (bid, tok), b.where(c.line))

    for bid, (cond, fa, fb) in BRANCH.items():
        b = lib.body(bid)
        if not res.anchor(b is not None, bid):
            continue
        fe = field_execs(b, lib)
        cc, ca, cb = (once(b, fe, f, "once:%s|%s" % (bid, f)) for f in (cond, fa, fb))
        if None in (cc, ca, cb):
            continue
        key = "branch:%s" % bid
        if not (b.dominates(cc.bb, ca.bb) and b.dominates(cc.bb, cb.bb)):
            res.bad(key, "%s: the condition must be evaluated before either branch" % bid, b.where())
        elif cb.bb in b.reachable(ca.bb) or ca.bb in b.reachable(cb.bb) or ca.bb == cb.bb:
            res.bad(key, "%s: both branches can be evaluated in one execution (only the chosen branch may run)" % bid, b.where())
        else:
            res.ok(key, b.where(), "%s before {%s xor %s}" % (cond, fa, fb))
        # the branch is chosen by the run-time test on the value just computed, and by nothing else: every way from
        # the evaluation of the condition / scrutinee to either branch passes through that test
        tests = DECIDES[bid]
        gates = {c.bb for c in b.calls if c.callee in tests or c.path in tests}
        key = "branch-decided-by-test:%s" % bid
        if not gates:
            res.bad(key, "%s no longer decides its branch with %s" % (bid, " / ".join(tests)), b.where())
        else:
            free = b.reachable_after(cc.bb, avoid=gates)
            leaked = [f for f, c in ((fa, ca), (fb, cb)) if c.bb in free]
            if leaked:
                res.bad(key, "%s can reach branch `%s` without the run-time test (%s) on the value it just evaluated: the branch is "
                             "(also) chosen by something decided earlier, e.g. a static pre-filter" % (bid, leaked[0], " / ".join(t.rsplit("::", 1)[-1] for t in tests)),
                        b.where())
            else:
                res.ok(key, b.where(), "both branches lie behind %s" % " / ".join(t.rsplit("::", 1)[-1] for t in tests))

    for bid, f in BIND.items():
        b = lib.body(bid)
        if not res.anchor(b is not None, bid):
            continue
        fe = field_execs(b, lib)
        c = once(b, fe, f, "once:%s|%s" % (bid, f))
        ins = [x for x in b.calls if x.callee == "interpreter::Interpreter::<'a>::insert"]
        for cb2 in lib.closures_of(bid):
            ins += [x for x in cb2.calls if x.callee == "interpreter::Interpreter::<'a>::insert"]
        key = "bind:%s" % bid
        if c is None:
            continue
        if ins and all(x.body is not b or b.dominates(c.bb, x.bb) for x in ins):
            res.ok(key, b.where(), "value evaluated before the name is bound")
        else:
            res.bad(key, "%s binds the name before (or without) evaluating the value" % bid, b.where())

    # Slicing: lhs, then the three bounds in order
    bid = P % "slicing::Slicing"
    b = lib.body(bid)
    if res.anchor(b is not None, bid):
        fe = field_execs(b, lib)
        lhs = once(b, fe, "lhs", "once:%s|lhs" % bid)
        idx = [c for c in b.calls if c.callee == "instruction::slicing::Slicing::exec_index"]
        ib = b          # the body that evaluates the three bounds: Slicing::exec or a helper that belongs to it alone
        gate = None     # the call through which exec reaches that helper
        if not idx:
            from ..owners import for_crate
            for hb in for_crate(lib).cluster(bid):
                hidx = [c for c in hb.calls if c.callee == "instruction::slicing::Slicing::exec_index"]
                calls_h = [c for c in b.calls if c.callee == hb.id]
                if hb is not b and len(hidx) == 3 and len(calls_h) == 1:
                    ib, idx, gate = hb, hidx, calls_h[0]
                    break
        names = [(recv(ib, c.args[0]) or (0, ("?",)))[1][:1] for c in idx]
        key = "order:%s|lhs<start<stop<step" % bid
        if gate is not None:
            ok_helper = lhs is not None and names == [("start",), ("stop",), ("step",)] and b.dominates(lhs.bb, gate.bb) and \
                not in_cycle(b, gate.bb) and ib.dominates(idx[0].bb, idx[1].bb) and ib.dominates(idx[1].bb, idx[2].bb) and \
                not any(in_cycle(ib, c.bb) for c in idx)
            if ok_helper:
                res.ok(key, b.where(), "bounds evaluated in order by helper %s, after the sequence" % ib.id)
            else:
                res.bad(key, "Slicing::exec must evaluate the sequence, then start, stop, step, each once (found bounds %s in %s)" % (names, ib.id), b.where())
        elif lhs is not None and names == [("start",), ("stop",), ("step",)] and b.dominates(lhs.bb, idx[0].bb) and \
                b.dominates(idx[0].bb, idx[1].bb) and b.dominates(idx[1].bb, idx[2].bb) and not any(in_cycle(b, c.bb) for c in idx):
            res.ok(key, b.where())
        else:
            res.bad(key, "Slicing::exec must evaluate the sequence, then start, stop, step, each once (found bounds %s)" % names, b.where())

    # Match: scrutinee, then arms top to bottom; return at the first cover
    bid = P % "control_flow::r#match::Match"
    b = lib.body(bid)
    if res.anchor(b is not None, bid):
        fe = field_execs(b, lib)
        scr = once(b, fe, "expression", "once:%s|expression" % bid)
        cov = [c for c in b.calls if c.callee == "instruction::control_flow::match_arm::MatchArm::covers"]
        arm = [c for c in b.calls if c.callee == "instruction::control_flow::match_arm::MatchArm::exec"]
        key = "match:%s" % bid
        if scr is not None and len(cov) == 1 and len(arm) == 1 and b.dominates(scr.bb, cov[0].bb) and b.dominates(cov[0].bb, arm[0].bb) \
                and in_cycle(b, cov[0].bb) and cov[0].bb not in b.reachable(arm[0].bb):
            res.ok(key, b.where(), "scrutinee once; arms tested in slice order; the first covering arm runs and the loop is left")
        else:
            res.bad(key, "Match::exec must evaluate the scrutinee once, test arms in order and run only the first covering arm", b.where())
        rv = [c for c in b.calls if c.path.rsplit("::", 1)[-1] in REORDERING]
        if rv:
            res.bad(key + "|order", "Match::exec reorders the arms (%s)" % rv[0].path, b.where(rv[0].line))
    # value candidates of one arm: top to bottom until the first equal one
    b = lib.body("instruction::control_flow::match_arm::MatchArm::covers")
    if b is not None and not [c for c in b.calls if c.path == EXEC]:
        # the candidate loop was moved into a helper that belongs to covers alone
        from ..owners import for_crate
        for hb in for_crate(lib).cluster(b.id):
            if [c for c in hb.calls if c.path == EXEC]:
                b = hb
                break
    if res.anchor(b is not None, "MatchArm::covers"):
        ex = [c for c in b.calls if c.path == EXEC]
        key = "match:covers"
        if len(ex) == 1 and in_cycle(b, ex[0].bb) and any(r in b.reachable(ex[0].bb, avoid=[]) for r in b.return_blocks()) \
                and not [c for c in b.calls if c.path.rsplit("::", 1)[-1] in REORDERING]:
            res.ok(key, b.where(), "candidates evaluated in slice order inside the loop, early return on the first equal one")
        else:
            res.bad(key, "MatchArm::covers must evaluate value candidates in order and stop at the first match", b.where())
        # no candidate is skipped: within the loop, every way from one `next()` to the following one evaluates the
        # candidate and compares it with the scrutinee
        nx = [c for c in b.calls if c.path.rsplit("::", 1)[-1] == "next" and in_cycle(b, c.bb)]
        eqs = [c for c in b.calls if c.path in ("std::cmp::PartialEq::eq", "std::cmp::PartialEq::ne") and "variable::Variable" in c.self_ty]
        key = "match:covers|no-candidate-skipped"
        if len(nx) == 1 and len(ex) == 1 and eqs:
            hdr = nx[0].bb
            gates = {ex[0].bb}
            gates_eq = {c.bb for c in eqs}
            after = b.reachable_after(hdr, avoid=gates)
            after_eq = b.reachable_after(hdr, avoid=gates_eq)
            if hdr in after or hdr in after_eq:
                res.bad(key, "MatchArm::covers can move on to the next value candidate without evaluating the current one and comparing it "
                             "with the scrutinee: an arm whose value equals the scrutinee may be skipped", b.where(nx[0].line))
            else:
                res.ok(key, b.where(nx[0].line), "every iteration evaluates its candidate and compares it (Variable ==)")
        else:
            res.bad(key, "cannot find the candidate loop of MatchArm::covers (next / exec / Variable == )", b.where())

    # sequences: forward iteration only
    for bid, f in list(SEQUENCE_BODIES.items()) + [(P % "r#struct::Struct", "values"), ("interpreter::Interpreter::<'a>::exec", "instructions")]:
        bodies = lib.with_closures(bid)
        if not res.anchor(bool(bodies), bid):
            continue
        bad = [c for bb in bodies for c in bb.calls if c.path.rsplit("::", 1)[-1] in REORDERING]
        key = "sequence:%s" % bid
        if bad:
            res.bad(key, "%s reorders its elements (%s): elements must be evaluated left to right" % (bid, bad[0].path), bodies[0].where(bad[0].line))
        else:
            res.ok(key, bodies[0].where(), "forward iteration only (slice::Iter / zip / map / collect)")
    res.floor(len(res.instances), 25, "evalorder_instances")
    return res
