"""R-FOLD: sibling agreement of the union folds in variable::r#type::Type.

All queries share one template for Type::Multi: apply THE SAME query to every member and combine. In the part of
Type::Q that handles Multi (blocks dominated by the Multi arm + closures of Q), every reference to a member of the
query family must be Q itself."""
from ..engine import RuleResult
from ..model import enum_switches, arm_region

TYPE = "variable::r#type::Type"
FAMILY = ["flatten_tuple", "index_result", "params", "return_type", "element_type", "mut_element_type", "tuple_len",
          "min_tuple_len", "iter_element", "tuple_element_at", "field_type", "is_function", "is_tuple", "is_mut", "has_field"]
EXCEPT = {("min_tuple_len", "tuple_len"): "a union never nests a union: members are plain types, min over their tuple_len"}


def run(ctx):
    res = RuleResult("R-FOLD", "in the Multi arm of each Type query, only the same query is applied to the union's members")
    lib = ctx.facts.lib
    fam = {"%s::%s" % (TYPE, n): n for n in FAMILY}
    n_self = 0
    for path, name in fam.items():
        b = lib.body(path)
        if not res.anchor(b is not None, path):
            continue
        sws = [s for s in enum_switches(b, TYPE) if "Multi" in s["arms"]]
        if not sws:
            # a query written as a delegation to another member of the family on the same type (has_field(x) = field_type(x).is_some())
            # inherits that member's treatment of unions
            deleg = sorted({fam[c.callee] for c in b.calls if c.callee in fam and fam[c.callee] != name})
            if len(deleg) == 1 and not enum_switches(b, TYPE):
                res.ok("fold:%s|delegates" % name, b.where(), "delegates to Type::%s" % ", ".join(deleg))
                continue
            if len(deleg) > 1:
                res.bad("fold:%s|recombines" % name, "Type::%s has no case for unions any more and answers by combining Type::%s: each of "
                                                     "those folds the members of a union on its own, so the combination can say yes where "
                                                     "one member alone would say no (a union then answers differently from its members)"
                        % (name, ", Type::".join(deleg)), b.where())
                continue
        if not res.anchor(bool(sws), "match arm for Type::Multi in " + path):
            continue
        region = set()
        for sw in sws:
            region |= set(arm_region(b, sw["arms"]["Multi"]))
        refs = []
        for c in b.calls:
            if c.bb in region and c.callee in fam:
                refs.append((fam[c.callee], b.where(c.line)))
        for bb, nm, _, line in b.fn_operands():
            if bb in region and nm in fam:
                refs.append((fam[nm], b.where(line)))
        for cb in lib.closures_of(path):
            for c in cb.calls:
                if c.callee in fam:
                    refs.append((fam[c.callee], cb.where(c.line)))
            for bb, nm, _, line in cb.fn_operands():
                if nm in fam:
                    refs.append((fam[nm], cb.where(line)))
        if not refs:
            res.bad("fold:%s:no-member-query" % name, "the Multi arm of Type::%s applies no query to the members" % name, b.where())
            continue
        for r, where in refs:
            key = "fold:%s->%s" % (name, r)
            if r == name:
                n_self += 1
                res.ok(key, where)
            elif (name, r) in EXCEPT:
                res.ok(key, where, EXCEPT[(name, r)])
            else:
                res.bad(key, "Type::%s handles a union by applying Type::%s to (some of) its members: members are treated "
                             "differently depending on their position in the hash set" % (name, r), where)
    res.floor(n_self, 20, "self_references")
    return res
