"""R-ERRFLOW: no error or control signal is dropped.

Every call whose result type is Result<_, E> (E one of the crate's error/control types) must have its result
propagated (`?`), returned, transformed by a Result combinator whose own result is tracked the same way, unwrapped
(a panic site, judged by R-PANIC) or matched with the Err payload looked at. An iterator whose Item is such a
Result may only be consumed by a short-circuiting consumer."""
from ..engine import RuleResult
from ..model import places_read

LIB_ERR = ("instruction::ExecStop", "errors::exec_error::ExecError", "errors::error::Error")

# idioms enumerated from the ~700 existing sites (DESIGN.md R-ERRFLOW), each keeps the error alive
ACCEPT_ARG = {
    "std::ops::Try::branch": "`?`",
    "std::result::Result::<T, E>::map": "combinator, result tracked",
    "std::result::Result::<T, E>::map_err": "combinator, result tracked",
    "std::result::Result::<T, E>::and_then": "combinator, result tracked",
    "std::result::Result::<T, E>::or_else": "combinator, result tracked",
    "std::result::Result::<&T, E>::cloned": "combinator, result tracked",
    "std::result::Result::<&T, E>::copied": "combinator, result tracked",
    "std::result::Result::<std::option::Option<T>, E>::transpose": "combinator",
    "std::result::Result::<T, E>::unwrap": "panic site (R-PANIC)",
    "std::result::Result::<T, E>::expect": "panic site (R-PANIC)",
    "std::result::Result::<T, E>::unwrap_err": "panic site (R-PANIC)",
    "std::option::Option::<T>::unwrap_or": "Option<Result> default: result tracked",
    "std::option::Option::<T>::unwrap_or_else": "Option<Result> default: result tracked",
    "std::option::Option::<T>::Some": "wrapped, flows on",
    "std::convert::Into::into": "conversion, result tracked",
    "std::convert::From::from": "conversion, result tracked",
}
ITER_OK = {"collect": "collect into Result short-circuits", "try_fold": "", "try_for_each": "", "map": "adapter",
           "map_while": "adapter", "filter": "adapter", "chain": "adapter", "zip": "adapter", "enumerate": "adapter",
           "peekable": "adapter", "by_ref": "adapter", "next": "single pull, result tracked", "into_iter": "adapter",
           "take": "adapter", "skip": "adapter", "inspect": "adapter", "rev": "adapter", "size_hint": "no consumption"}


def is_err_result(t, errs):
    return t.startswith("std::result::Result<") and any(t.endswith(", %s>" % e) for e in errs)


def analyse(crate, errs):
    """Yield (verdict, key, msg, where) with verdict in ok/bad."""
    for b in crate.bodies.values():
        per_callee_seen = {}
        for c in b.calls:
            dt = c.term.get("dest_ty", "")
            fn = c.fn or {}
            # -- iterator rule
            it = fn.get("iter_item")
            if it and is_err_result(it, errs) and fn.get("trait") == "std::iter::Iterator":
                m = c.path.rsplit("::", 1)[-1]
                key = "iter:%s:%s:%s" % (b.id, m, it)
                if m == "collect":
                    if dt.startswith("std::result::Result<") or dt.startswith("std::option::Option<"):
                        yield "ok", key, "collect into Result", c.where()
                    else:
                        yield "bad", key, "iterator of %s collected into %s: errors are stored, not propagated" % (it, dt), c.where()
                elif m in ITER_OK:
                    # an adapter handed a function that forgets the error (`map_while(Result::ok)`, `filter_map(Result::ok)`)
                    forget = [a["fn"].get("path", "") for a in c.args if isinstance(a, dict) and a.get("k") == "const" and "fn" in a
                              and a["fn"].get("path", "").rsplit("::", 1)[-1] in ("ok", "unwrap_or_default", "is_ok", "is_err", "unwrap_or")
                              and "Result" in a["fn"].get("path", "")]
                    if forget:
                        yield ("bad", key, "Iterator::%s(%s) over an iterator whose Item is %s: the adapter turns every error into "
                                           "`None` / a default, so a failure ends or thins the sequence silently" % (m, forget[0], it), c.where())
                    else:
                        yield "ok", key, ITER_OK[m], c.where()
                else:
                    yield ("bad", key,
                           "Iterator::%s consumes an iterator whose Item is %s without short-circuiting: every error but "
                           "the one it happens to return is dropped" % (m, it), c.where())
            if not is_err_result(dt, errs):
                continue
            n = per_callee_seen.get(c.callee, 0)
            per_callee_seen[c.callee] = n + 1
            base = "result:%s:%s" % (b.id, c.callee)
            if c.dest["p"]:
                yield "ok", base + ":stored", "stored into a place", c.where()
                continue
            verdict, why = _judge_local(b, c.dest["l"], set())
            yield verdict, base + ":" + why.split(" ")[0], why, c.where()


def _judge_local(b, l, seen):
    if l == 0:
        return "ok", "returned"
    if l in seen:
        return "ok", "alias-cycle"
    seen.add(l)
    uses = b.uses(l)
    real = [(bb, w, o) for bb, w, o in uses if w != "drop"]
    if not real:
        return "bad", "dropped: the Result is never looked at"
    worst = None
    okwhy = None
    matched = False
    for bb, w, o in real:
        if w.startswith("arg"):
            fn = o["func"].get("fn", {})
            p = fn.get("path", "")
            if p in ACCEPT_ARG:
                okwhy = okwhy or ("consumed-by:" + p.rsplit("::", 1)[-1])
            elif not fn:
                okwhy = okwhy or "passed-to-indirect-call"
            elif p.startswith(("std::", "core::", "alloc::")):
                worst = "discarding-consumer:%s the Result is passed to %s, which forgets the error" % (p.rsplit("::", 1)[-1], p)
            else:
                okwhy = okwhy or ("passed-to:" + p)
        elif w == "stmt":
            rv = o["rv"]
            if rv["k"] == "discr":
                matched = True
            elif rv["k"] in ("use", "agg", "ref", "copyderef", "cast"):
                tgt = o["place"]
                if tgt["l"] == 0:
                    okwhy = okwhy or "returned"
                elif rv["k"] == "use" and not tgt["p"] and rv["o"].get("l") == l and not rv["o"].get("p"):
                    v, why = _judge_local(b, tgt["l"], seen)
                    if v == "bad":
                        worst = why
                    else:
                        okwhy = okwhy or why
                elif rv["k"] == "ref" and not rv["place"]["p"]:
                    # &result passed on (e.g. to Debug formatting, or `match &r`)
                    v, why = _judge_local(b, tgt["l"], seen)
                    if v == "bad" and not why.startswith("dropped"):
                        worst = why
                    else:
                        okwhy = okwhy or "borrowed"
                else:
                    okwhy = okwhy or "payload-read-or-stored"
        elif w == "partial-write":
            pass
        else:
            okwhy = okwhy or w
    if matched:
        # a match on the Result: the Err payload must be looked at somewhere
        touched = False
        for _, pl, _o in places_read(b):
            if pl["l"] == l and any(e["k"] == "downcast" and e["variant"] == "Err" for e in pl["p"]):
                touched = True
        if not touched:
            return "bad", "err-arm-ignored: matched, but the Err payload is never read (error swallowed)"
        okwhy = okwhy or "matched"
    if worst:
        return "bad", worst
    return "ok", okwhy or "used"


def run(ctx):
    res = RuleResult("R-ERRFLOW", "every Result<_, ExecStop|ExecError|Error> is propagated, returned, combined, unwrapped or "
                                  "matched with its Err payload read; iterators of such Results only feed short-circuiting consumers")
    n = 0
    for verdict, key, msg, where in analyse(ctx.facts.lib, LIB_ERR):
        n += 1
        if verdict == "ok":
            res.ok(key, where, msg)
        else:
            res.bad(key, msg, where)
    res.floor(n, 600, "result_sites")
    # positive controls
    fx = list(analyse(ctx.fixtures, ("errflow::FxStop",)))
    bad = {k for v, k, _, _ in fx if v == "bad"}
    for want in ("iter:errflow::last_over_results:last", "result:errflow::dropped_result", "result:errflow::ok_and_default",
                 "result:errflow::swallowing_match"):
        res.control(any(k.startswith(want) for k in bad), want)
    good = [k for v, k, _, _ in fx if v == "ok"]
    res.control(any(k.startswith("result:errflow::propagates") for k in good) and
                not any(k.startswith("result:errflow::propagates") for k in bad), "negative control errflow::propagates is accepted")
    return res
