"""R-ORPAT: a universal check written as an or-pattern.

`if let A | B | C = e && cond(x)` binds x from the FIRST matching alternative only. When the alternatives overlap
(they are not mutually exclusive) and bind the same name at different positions, `cond` is checked for one of several
candidates. Same for a match arm `A | B if cond(x)`.   Also R-UNSAFE (no user-written unsafe) lives here (HIR facts)."""
from ..engine import RuleResult


def overlap(a, b):
    """May both patterns match the same value?"""
    ka, kb = a["k"], b["k"]
    if ka in ("wild", "bind", "other", "lit", "guardpat") or kb in ("wild", "bind", "other", "lit", "guardpat"):
        if ka == "bind" and "sub" in a:
            return overlap(a["sub"], b)
        if kb == "bind" and "sub" in b:
            return overlap(a, b["sub"])
        return True
    if ka == "ref":
        return overlap(a["sub"], b if kb != "ref" else b["sub"])
    if kb == "ref":
        return overlap(a, b["sub"])
    if ka == "or":
        return any(overlap(x, b) for x in a["ps"])
    if kb == "or":
        return any(overlap(a, x) for x in b["ps"])
    if ka != kb:
        return True
    if ka == "ctor":
        if a["path"].rsplit("::", 1)[-1] != b["path"].rsplit("::", 1)[-1]:
            return False
        if a["dotdot"] != -1 or b["dotdot"] != -1 or len(a["ps"]) != len(b["ps"]):
            return True
        return all(overlap(x, y) for x, y in zip(a["ps"], b["ps"]))
    if ka == "tuple":
        if a["dotdot"] != -1 or b["dotdot"] != -1 or len(a["ps"]) != len(b["ps"]):
            return True
        return all(overlap(x, y) for x, y in zip(a["ps"], b["ps"]))
    if ka == "struct":
        if a["path"].rsplit("::", 1)[-1] != b["path"].rsplit("::", 1)[-1]:
            return False
        fa = {f["name"]: f["pat"] for f in a["fields"]}
        fb = {f["name"]: f["pat"] for f in b["fields"]}
        return all(overlap(fa[n], fb[n]) for n in fa if n in fb)
    return True


def bindings(p, pos=()):
    out = {}
    k = p["k"]
    if k == "bind":
        out[p["name"]] = pos
        if "sub" in p:
            out.update(bindings(p["sub"], pos))
    elif k in ("tuple", "ctor", "or"):
        for i, q in enumerate(p["ps"]):
            out.update(bindings(q, pos + (i,)))
    elif k == "struct":
        for f in p["fields"]:
            out.update(bindings(f["pat"], pos + (f["name"],)))
    elif k in ("ref", "guardpat"):
        out.update(bindings(p["sub"], pos))
    return out


def find_ors(p):
    if p["k"] == "or":
        yield p
    for q in p.get("ps", []):
        yield from find_ors(q)
    if "sub" in p:
        yield from find_ors(p["sub"])
    for f in p.get("fields", []):
        yield from find_ors(f["pat"])


def judge(entry):
    """-> (bad: bool, names)"""
    for orp in find_ors(entry["pat"]):
        alts = orp["ps"]
        for i in range(len(alts)):
            for j in range(i + 1, len(alts)):
                if not overlap(alts[i], alts[j]):
                    continue
                bi, bj = bindings(alts[i]), bindings(alts[j])
                moved = [n for n in bi if n in bj and bi[n] != bj[n]]
                if moved:
                    return True, moved
    return False, []


def run(ctx):
    res = RuleResult("R-ORPAT", "no condition is attached to an or-pattern whose alternatives overlap and bind the tested name at "
                                "different positions (the condition would be checked for the first candidate only)")
    n = 0
    for crate in (ctx.facts.lib, ctx.facts.parser):
        for e in crate.hir.get("orpats", []):
            n += 1
            bad, names = judge(e)
            per = "%s|%s" % (e["owner"], e["ctx"])
            key = "orpat:" + per
            where = "%s:%s" % (e["file"], e["line"])
            if bad:
                res.bad(key, "in %s a condition follows an or-pattern whose alternatives overlap and bind `%s` at different positions: "
                             "only the first present candidate is checked" % (e["owner"], ", ".join(names)), where)
            else:
                res.ok(key, where, "alternatives are mutually exclusive or bind nothing that moves")
    res.stats["orpatterns_with_condition"] = n
    res.ok("orpat:scanned", "", "%d or-patterns followed by a condition in the workspace" % n)
    fx = ctx.fixtures.hir.get("orpats", [])
    res.control(any(judge(e)[0] for e in fx if e["owner"] == "orpat::first_only"), "orpat::first_only")
    res.control(not any(judge(e)[0] for e in fx if e["owner"] == "orpat::exclusive"), "negative control orpat::exclusive accepted")
    return res


def run_unsafe(ctx):
    res = RuleResult("R-UNSAFE", "no user-written `unsafe` (block, fn, impl) in the workspace crates: data-race freedom of shared "
                                 "Code/Variable is then rustc's own guarantee")
    n = 0
    for name, crate in (("simplesl", ctx.facts.lib), ("simplesl_parser", ctx.facts.parser), ("simplesl(bin)", ctx.facts.bin),
                        ("simplesl_macros", ctx.facts.macros)):
        sites = crate.hir.get("unsafe", [])
        user = [s for s in sites if not s.get("exp")]
        n += len(crate.bodies)
        if user:
            for s in user:
                res.bad("unsafe:%s|%s|%s" % (name, s["owner"], s["what"]), "%s in %s (%s)" % (s["what"], s["owner"] or name, name),
                        "%s:%s" % (s["file"], s["line"]))
        else:
            res.ok("unsafe:" + name, "", "%d bodies, %d compiler/derive generated unsafe items ignored" % (len(crate.bodies), len(sites)))
    res.floor(n, 1500, "bodies_scanned")
    fx = [s for s in ctx.fixtures.hir.get("unsafe", []) if not s.get("exp")]
    res.control(any(s["owner"] == "orpat::raw_read" for s in fx), "orpat::raw_read (unsafe block)")
    return res
