"""R-FORSHAPE: the instruction tree `for x in e body` is lowered to, read from the aggregates of its creator:

    Block[ $iter := e ,  loop Block[ ($con, x) := $iter() ,  if $con body else break ] ]

so that e is evaluated once before the loop, every iteration pulls exactly once, the body runs exactly for delivered
elements with x bound to the element, and the loop ends at the end marker."""
from ..engine import RuleResult
from .. import aggtree
from ..aggtree import is_adt, find

FOR = "instruction::r#loop::r#for::create_instruction"
NEW = "instruction::InstructionWithStr::new"


def _ins(t):
    """the Instruction inside an InstructionWithStr tree (or t itself)"""
    if is_adt(t, "InstructionWithStr"):
        return t[3].get("instruction")
    return t


def run(ctx):
    res = RuleResult("R-FORSHAPE", "`for` is lowered to Block[$iter := e, loop Block[($con, x) := $iter(), if $con body else break]]")
    lib = ctx.facts.lib
    b = lib.body(FOR)
    if not res.anchor(b is not None, FOR):
        return res
    from ..owners import load_known_table
    aggtree.configure(lib, set(load_known_table()))
    roots = []
    for blk in b.blocks:
        for s in blk["stmts"]:
            if s["k"] == "assign" and s["place"]["l"] == 0 and s["rv"]["k"] == "agg" and s["rv"].get("variant") == "Ok":
                roots.append(aggtree.tree(b, s["rv"]["ops"][0]))
    if not res.anchor(len(roots) >= 1, "a success value in for::create_instruction"):
        return res
    for n, root in enumerate(roots):
        _shape(res, b, root, "forshape" if n == 0 else "forshape#%d" % n)
    return res


def _shape(res, b, root, key):
    t = _ins(root)
    bad = []

    def fail(msg):
        bad.append(msg)

    def items(x):
        x = _ins(x)
        if is_adt(x, "block::Block"):
            arr = x[3].get("instructions")
            if isinstance(arr, tuple) and arr[0] == "array":
                return arr[1]
        return None
    outer = items(t)
    if outer is None or len(outer) != 2:
        res.bad(key + "|outer", "for::create_instruction no longer returns Block[<bind the iterator>, <loop>]", b.where())
        return res
    first, second = _ins(outer[0]), _ins(outer[1])
    # $iter := e, before the loop
    if not (is_adt(first, "set::Set") and first[3]["ident"][0] == "static"):
        fail("the first statement must bind the iterator expression to the hidden name (evaluated once, before the loop)")
        iter_static = None
    else:
        iter_static = first[3]["ident"][1]
        src = first[3]["instruction"]
        if not (src[0] == "call" and src[1] == NEW):
            fail("the hidden iterator name must be bound to the expression written after `in`")
    if not is_adt(second, "Loop"):
        fail("the second statement must be the loop")
        for m in bad:
            res.bad(key + "|outer", m, b.where())
        return res
    inner = items(list(second[3].values())[0])
    if inner is None or len(inner) != 2:
        res.bad(key + "|inner", "the loop body must be Block[<pull and destructure>, <if>]", b.where())
        return res
    d, i = _ins(inner[0]), _ins(inner[1])
    con_static = None
    if not is_adt(d, "DestructTuple"):
        fail("every iteration must start by pulling the iterator and destructuring the result")
    else:
        ids = d[3]["idents"]
        if not (ids[0] == "array" and len(ids[1]) == 2 and ids[1][0][0] == "static"):
            fail("the pull must be destructured into ($con, <loop variable>) in this order")
        else:
            con_static = ids[1][0][1]
            if ids[1][1][0] == "static":
                fail("the second component of the pull must be bound to the loop variable")
        call = _ins(d[3]["instruction"])
        okc = is_adt(call, "BinOperation") and call[3]["op"][0] == "adt" and call[3]["op"][2] == "FunctionCall"
        if okc:
            lhs = call[3]["lhs"]
            okc = is_adt(lhs, "Instruction", "LocalVariable") and any(v == ("static", iter_static) for v in lhs[3].values())
            rhs = call[3]["rhs"]
            okc = okc and not find(rhs, lambda x: x[0] == "call" and x[1] == NEW)
        if not okc:
            fail("what is destructured must be a call of the hidden iterator with no arguments")
    if not is_adt(i, "IfElse"):
        fail("the second statement of an iteration must be `if $con body else break`")
    else:
        cond = _ins(i[3]["condition"])
        if not (is_adt(cond, "Instruction", "LocalVariable") and any(v == ("static", con_static) for v in cond[3].values())):
            fail("the condition must be the $con component of this iteration's pull")
        body = i[3]["if_true"]
        if not (body[0] == "call" and body[1] == NEW):
            fail("the body written by the user must run exactly when $con is true")
        brk = _ins(i[3]["if_false"])
        if not is_adt(brk, "Instruction", "Break"):
            fail("the loop must break when $con is false (end marker)")
    # exactly one pull per iteration, exactly two user expressions (the iterator, the body)
    pulls = find(second, lambda x: is_adt(x, "BinOperation") and x[3]["op"][0] == "adt" and x[3]["op"][2] == "FunctionCall")
    if len(pulls) != 1:
        fail("an iteration must contain exactly one call of the hidden iterator (found %d)" % len(pulls))
    news_in_loop = find(second, lambda x: x[0] == "call" and x[1] == NEW)
    if len(news_in_loop) != 1:
        fail("the loop must contain the user's body once and nothing else of the user's program (found %d sub-programs)" % len(news_in_loop))
    if bad:
        for n, m in enumerate(bad):
            res.bad("%s|%d" % (key, n), "for::create_instruction: " + m, b.where())
    else:
        res.ok(key, b.where(), "Block[$iter := e, loop Block[($con, x) := $iter(), if $con body else break]]")
    return res
