"""R-FOLDDROP: a fold function never discards an operand instruction that is not a constant.

The fold functions take operand instructions by value. On every path, an operand that is neither moved into the result
nor known to be `Instruction::Variable` (a constant: dropping it loses no effect) must not be dropped - except where the
constant LEFT operand of `&&` / `||` decides the result (short-circuit), or on a path that reports a parse-time error
(the difference the property permits). Decided on the MIR: drop elaboration makes every discard an explicit `drop(place)`
guarded by a drop flag; a small path-sensitive walk tracks the flags and the `discriminant == Variable` tests."""
import re
from collections import deque

from ..engine import RuleResult
from ..model import enum_switches, op_local

INS = "instruction::Instruction"
IWS = "instruction::InstructionWithStr"
L = "instruction::bin_op::logic::"
POLICY = {   # function -> policy: 'lhs-const' (lhs constant decides) | 'self-const' (only constants may be dropped)
    L + "and::create_from_instructions": "lhs-const",
    L + "or::create_from_instructions": "lhs-const",
    L + "and::recreate": "lhs-const",
    L + "or::recreate": "lhs-const",
    "instruction::bin_op::create_from_instructions_with_exec": "self-const",
    "instruction::prefix_op::not::create_from_instruction": "self-const",
    "instruction::prefix_op::unary_minus::create_from_instruction": "self-const",
    "instruction::bin_op::math::divide::create_from_instructions": "self-const",
    "instruction::bin_op::math::modulo::create_from_instructions": "self-const",
    "instruction::bin_op::shift::lshift::create_from_instructions": "self-const",
    "instruction::bin_op::shift::rshift::create_from_instructions": "self-const",
    "instruction::at::create_from_instructions": "self-const",
    "instruction::array_repeat::ArrayRepeat::create_from_instructions": "self-const",
}


# functions outside POLICY that legitimately discard a non-constant instruction they own
GENERAL = {
    "instruction::r#loop::r#while::create_instruction":
        ("any-const", None),        # `while false body`: the constant condition decides that the body never runs
    "instruction::r#loop::while_set::create_instruction":
        ("self-const", ("instruction::control_flow::set_if_else::SetIfElse", "else_instruction",
                        "while-set has no else branch in the grammar: SetIfElse::create put the constant () there, it is replaced by `break`")),
}


def pid(pl):
    out = "_%d" % pl["l"]
    for e in pl["p"]:
        if e["k"] == "field":
            out += ".%s" % e["i"]
        elif e["k"] == "downcast":
            out += "@%s" % e["variant"]
        elif e["k"] == "deref":
            out += "*"
        else:
            out += "[?]"
    return out


def place_ty(b, pl):
    t = b.local_ty(pl["l"])
    for e in pl["p"]:
        if e["k"] == "field":
            t = e.get("ty", "?")
        elif e["k"] == "deref":
            t = t.lstrip("&").replace("mut ", "", 1)
    return t


def analyse(b, policy):
    """-> list of (line, place id, why) for operand drops that violate the policy; number of paths/configs explored"""
    sws = {s["bb"]: s for s in enum_switches(b, INS)}
    # first by-value operand: argument 1 itself or, once packed into a tuple, its field 0
    lhs_ids = {"_1"}
    for _, s in b.assigns():
        rv = s["rv"]
        if rv["k"] == "agg" and rv.get("agg") == "tuple" and rv["ops"] and op_local(rv["ops"][0]) is not None and not s["place"]["p"]:
            src = rv["ops"][0]
            # (move _4, ..) where _4 = move _1
            r = src["l"]
            for d in b.def_sites(r):
                if d[1] == "assign" and d[2]["rv"]["k"] == "use" and d[2]["rv"]["o"].get("l") == 1 and not d[2]["rv"]["o"].get("p"):
                    lhs_ids.add("_%d.0" % s["place"]["l"])
                    lhs_ids.add("_%d" % r)
            if r == 1:
                lhs_ids.add("_%d.0" % s["place"]["l"])
    # whole-value moves of operand instructions keep their identity: `_18 = move _3.0`
    alias = {}
    for _, st in b.assigns():
        rv = st["rv"]
        if rv["k"] == "use" and rv["o"].get("k") in ("move", "copy") and place_ty(b, st["place"]) == INS:
            alias[pid(st["place"])] = pid(rv["o"])

    def canon(p, n=0):
        while p in alias and n < 10:
            p = alias[p]
            n += 1
        return p
    lhs_ids = {canon(x) for x in lhs_ids} | lhs_ids
    bad = []
    seen = set()
    work = deque([(0, frozenset(), frozenset(), False)])   # bb, flags(frozenset of (local,bool)), facts(Variable place ids), on error path
    n = 0
    while work and n < 20000:
        bb, flags, facts, err = work.popleft()
        key = (bb, flags, facts, err)
        if key in seen:
            continue
        seen.add(key)
        n += 1
        fl = dict(flags)
        blk = b.blocks[bb]
        for st in blk["stmts"]:
            if st["k"] != "assign" or st["place"]["p"]:
                if st["k"] == "assign" and st["rv"]["k"] == "agg" and st["rv"].get("adt") == "std::result::Result" and st["rv"]["variant"] == "Err":
                    err = True
                continue
            rv = st["rv"]
            if rv["k"] == "use" and rv["o"].get("k") == "const" and rv["o"].get("ty") == "bool":
                fl[st["place"]["l"]] = rv["o"].get("val") == "true"
            elif rv["k"] == "agg" and rv.get("adt") == "std::result::Result" and rv["variant"] == "Err":
                err = True
            else:
                fl.pop(st["place"]["l"], None)
        t = blk["term"]
        k = t["k"]
        nf = frozenset(fl.items())
        if k == "return" or k == "resume" or k == "unreachable":
            continue
        if k == "drop":
            pl = t["place"]
            pty = place_ty(b, pl)
            if pty in (INS, IWS) and not blk.get("cleanup"):
                p = canon(pid(pl))
                # an InstructionWithStr is a constant when its `instruction` field (field 0) is
                known = p in facts or (pty == IWS and canon(p + ".0") in facts) or (p.endswith(".0") and p[:-2] in facts)
                ok = err or known or (policy == "lhs-const" and (facts & lhs_ids)) or (policy == "any-const" and facts)
                if not ok:
                    bad.append((t.get("line"), p, "dropped on a path where it is not known to be a constant"
                                + ("" if policy != "lhs-const" else " and the left operand is not a constant either")))
            work.append((t["target"], nf, facts, err))
            continue
        if k == "switch":
            if bb in sws:
                sw = sws[bb]
                p = canon(pid(sw["place"]))
                for var, tgt in sw["arms"].items():
                    work.append((tgt, nf, facts | {p} if var == "Variable" else facts, err))
                if sw["rest"]:
                    work.append((sw["otherwise"], nf, facts | {p} if sw["rest"] == ["Variable"] else facts, err))
                continue
            l = op_local(t["discr"])
            if l is not None and l in fl and not t["discr"].get("p"):
                zero = [tg for v, tg in t["targets"] if v == "0"]
                work.append(((t["otherwise"] if fl[l] else (zero[0] if zero else t["otherwise"])), nf, facts, err))
                continue
            for _, tg in t["targets"]:
                work.append((tg, nf, facts, err))
            work.append((t["otherwise"], nf, facts, err))
            continue
        if k == "call":
            fn = t["func"].get("fn", {})
            callee = fn.get("resolved") or fn.get("path", "")
            if not t["dest"]["p"]:
                fl.pop(t["dest"]["l"], None)
            if callee.endswith("from_residual") or "FromResidual" in callee:
                err = True      # `?` took the error branch
            if "target" in t:
                work.append((t["target"], frozenset(fl.items()), facts, err))
            continue
        for s in b.term_succ(t):
            work.append((s, nf, facts, err))
    uniq = {}
    for line, p, why in bad:
        uniq.setdefault(p, (line, why))
    return uniq, n


def run(ctx):
    res = RuleResult("R-FOLDDROP", "fold functions discard an operand instruction only if it is a constant (or, for && / ||, if the "
                                   "constant left operand decides; or on a parse-time error path)")
    lib = ctx.facts.lib
    total = 0
    for fid, policy in POLICY.items():
        b = lib.body(fid)
        if not res.anchor(b is not None, fid):
            continue
        bad, n = analyse(b, policy)
        total += n
        key = "folddrop:%s" % fid
        if bad:
            p, (line, why) = sorted(bad.items())[0]
            res.bad(key, "%s discards operand %s: %s - its effects (calls, assignments, run-time errors) vanish from the folded program"
                    % (fid, p, why), b.where(line))
        else:
            res.ok(key, b.where(), "policy %s, %d configurations" % (policy, n))
    # every other function that creates or folds an instruction: whatever instruction it owns (a created or recreated child)
    # ends up in the result, unless it is known to be a constant
    ng = 0
    for fid, b in sorted(lib.bodies.items()):
        if fid in POLICY or not fid.startswith(("instruction::", "<instruction::")) or "{closure" in fid:
            continue
        nm = fid.rsplit("::", 1)[-1]
        if not ((b.impl_trait == "instruction::Recreate" and nm == "recreate") or nm.startswith("create_from_instruction")
                or nm in ("create_instruction", "create_op", "create")):
            continue
        ng += 1
        policy, exempt = GENERAL.get(fid, ("self-const", None))
        bad, n = analyse(b, policy)
        total += n
        if exempt:
            adt, field, _why = exempt
            fields = [f["name"] for f in lib.adts[adt]["variants"][0]["fields"]] if adt in lib.adts else []
            for p in list(bad):
                m = re.match(r"_(\d+)\.(\d+)$", p)
                if m and b.local_ty(int(m.group(1))) == adt and int(m.group(2)) < len(fields) and fields[int(m.group(2))] == field:
                    del bad[p]
        key = "folddrop:%s" % fid
        if bad:
            p, (line, why) = sorted(bad.items())[0]
            res.bad(key, "%s discards an instruction it created or folded (%s: %s): %s - its effects (calls, assignments, run-time errors) "
                         "vanish from the program" % (fid, p, b.local_ty(int(re.match(r"_(\d+)", p).group(1))), why), b.where(line))
        else:
            res.ok(key, b.where(), "policy %s, %d configurations" % (policy, n))
    res.floor(ng, 60, "creating_or_folding_functions")
    res.stats["configurations"] = total
    fx = ctx.fixtures.body("folddrop::absorbing_rhs")
    fy = ctx.fixtures.body("folddrop::constant_lhs")
    if fx is not None and fy is not None:
        # the fixture uses its own Instruction enum: temporarily analyse with its path
        global INS
        keep = INS
        INS = "folddrop::Instruction"
        try:
            res.control(bool(analyse(fx, "lhs-const")[0]), "folddrop::absorbing_rhs (non-constant lhs dropped)")
            res.control(not analyse(fy, "lhs-const")[0], "negative control folddrop::constant_lhs accepted")
        finally:
            INS = keep
    else:
        res.control(False, "folddrop fixtures present")
    return res
