"""R-TABLES: agreement of docs precedence table, PRATT_PARSER, grammar operator choices, Rule->operator maps
and dispatch arms; ordered-choice shadowing of operator literals."""
from ..engine import RuleResult
from ..grammar import Grammar
from .. import tablesrc
from ..model import enum_switches, arm_region

# docs notations that are not the operator's own literal: frozen, with the reason
DOC_NOTATION = {
    "[]": "at",               # docs write the bracket pair for indexing
    "? type": "type_filter",  # '?' followed by a type
    "()": "function_call",    # call parentheses
    "$ expression": "reduce",  # '$' followed by the initial value
}
# operators the docs table omits; the property statement places them (C14 statement text):
#   "indexing, slicing, call, tuple/field access and `? type` bind tightest" -> level 1
#   "the iterator operators (@ ? \ `$ init`, the postfix reducers and ~)"   -> level 3
STATEMENT_PLACEMENT = {"slicing": 1, "tuple_access": 1, "field_access": 1, "collect": 3}
N_LEVELS = 14


def run_precedence(ctx):
    res = RuleResult("R-TABLES", "docs precedence table = PRATT_PARSER levels = grammar operator sets = dispatch maps; "
                                 "no operator literal shadowed by an earlier alternative")
    f = ctx.facts
    try:
        levels = tablesrc.pratt_levels(f.parser)          # lowest first
        docs = tablesrc.docs_precedence()
        g = Grammar(f.grammar)
        disp_bin = tablesrc.display_strings(f.lib, "bin_operator::BinOperator")
    except tablesrc.TableError as e:
        res.anchor(False, str(e))
        return res
    for r in ("bin_op", "prefix_op", "postfix_op", "expr", "atom"):
        if not res.anchor(r in g.rules, "grammar rule `%s`" % r):
            return res

    infix = [n for k, n in g.alternatives("bin_op") if k == "rule"]
    prefix = [n for k, n in g.alternatives("prefix_op") if k == "rule"]
    postfix = [n for k, n in g.alternatives("postfix_op") if k == "rule"]
    res.anchor(all(k == "rule" for k, _ in g.alternatives("bin_op") + g.alternatives("prefix_op") + g.alternatives("postfix_op")),
               "operator choices consist of rule references only")
    gram = {"infix": infix, "prefix": prefix, "postfix": postfix}

    # -- T2: registered in Pratt == alternatives of the grammar, per fixity (an unregistered operator rule makes
    #        pest's PrattParserMap panic; a registered one that the grammar cannot produce is dead)
    pratt = {}
    for li, lv in enumerate(levels):
        for fix, rule, assoc in lv:
            key = "pratt-unique:%s" % rule
            if rule in pratt:
                res.bad(key, "rule `%s` registered twice in PRATT_PARSER" % rule, "parser/src/lib.rs")
            pratt[rule] = (fix, li, assoc)
    for fix, names in gram.items():
        for n in names:
            key = "registered:%s:%s" % (fix, n)
            if n not in pratt:
                res.bad(key, "grammar %s operator `%s` is not registered in PRATT_PARSER (pest panics on it)" % (fix, n),
                        "parser/src/lib.rs")
            elif pratt[n][0] != fix:
                res.bad(key, "`%s` is a %s operator in the grammar but registered as %s" % (n, fix, pratt[n][0]),
                        "parser/src/lib.rs")
            else:
                res.ok(key)
    for rule, (fix, li, assoc) in pratt.items():
        key = "producible:%s:%s" % (fix, rule)
        if rule not in gram.get(fix, []):
            res.bad(key, "PRATT_PARSER registers %s `%s` which the grammar's %s choice does not contain" % (fix, rule, fix),
                    "parser/src/simplesl.pest")
        else:
            res.ok(key)

    # -- T1: docs level/assoc == pratt level/assoc
    res.floor(len(levels), N_LEVELS, "pratt_levels")
    if len(levels) != N_LEVELS:
        res.bad("levels:count", "PRATT_PARSER has %d levels, the documented table has %d" % (len(levels), N_LEVELS),
                "parser/src/lib.rs")
    expected = {}   # rule -> (doc level, assoc)
    lit_infix = {g.literal(n): n for n in infix if g.literal(n)}
    lit_prefix = {g.literal(n): n for n in prefix if g.literal(n)}
    lit_postfix = {g.literal(n): n for n in postfix if g.literal(n)}
    doc_levels = sorted({lv for lv, _, _ in docs})
    res.floor(len(docs), 48, "docs_rows")
    if doc_levels != list(range(1, N_LEVELS + 1)):
        res.bad("docs:levels", "docs precedence levels are %s, expected 1..%d" % (doc_levels, N_LEVELS), "docs/operators.md")
    # which doc level is the prefix class: the one whose every token is a prefix literal and right-to-left
    for lv, tok, assoc in docs:
        if tok in DOC_NOTATION:
            rule = DOC_NOTATION[tok]
        else:
            cands = []
            if tok in lit_prefix and assoc.startswith("Right") and all(t in lit_prefix for l2, t, _ in docs if l2 == lv):
                cands = [lit_prefix[tok]]
            elif tok in lit_infix:
                cands = [lit_infix[tok]]
            elif tok in lit_postfix:
                cands = [lit_postfix[tok]]
            if not cands:
                res.bad("docs-token:%s@%d" % (tok, lv), "documented operator `%s` (level %d) has no grammar rule with that literal" % (tok, lv),
                        "docs/operators.md")
                continue
            rule = cands[0]
        if rule in expected:
            res.bad("docs-dup:%s" % rule, "operator rule `%s` documented twice" % rule, "docs/operators.md")
        expected[rule] = (lv, assoc)
    for rule, lv in STATEMENT_PLACEMENT.items():
        if rule not in expected:
            a = next((a for l2, _, a in docs if l2 == lv), "Left-to-right")
            expected[rule] = (lv, a)
    for rule, (fix, li, assoc) in sorted(pratt.items()):
        key = "level:%s" % rule
        if rule not in expected:
            res.bad(key, "operator `%s` is registered in PRATT_PARSER but neither documented nor placed by the property statement" % rule,
                    "docs/operators.md")
            continue
        dl, dassoc = expected[rule]
        want = N_LEVELS - dl          # index from lowest
        if li != want:
            res.bad(key, "`%s`: documented precedence level %d (= Pratt level %d from lowest) but registered at Pratt level %d"
                    % (rule, dl, want, li), "parser/src/lib.rs")
            continue
        if fix == "infix":
            wa = "Right" if dassoc.startswith("Right") else "Left"
            if assoc != wa:
                res.bad("assoc:%s" % rule, "`%s`: documented %s, registered Assoc::%s" % (rule, dassoc, assoc), "parser/src/lib.rs")
                continue
        res.ok(key, note="doc level %d, %s%s" % (dl, fix, " " + assoc if assoc else ""))
    for rule in expected:
        if rule not in pratt:
            res.bad("level:%s" % rule, "documented operator `%s` is not registered in PRATT_PARSER" % rule, "parser/src/lib.rs")
    # class shape stated by the property: level 2 exactly the prefix class, assignments (level 14) exactly the Right ones
    lvl2 = {r for r, (fix, li, _) in pratt.items() if li == N_LEVELS - 2}
    if lvl2 == set(prefix) and all(pratt[r][0] == "prefix" for r in lvl2):
        res.ok("class:prefix=level2")
    else:
        res.bad("class:prefix=level2", "level 2 is %s, the grammar's prefix operators are %s" % (sorted(lvl2), sorted(prefix)),
                "parser/src/lib.rs")
    right = {r for r, (fix, li, a) in pratt.items() if a == "Right"}
    lowest = {r for r, (fix, li, a) in pratt.items() if li == 0}
    if right == lowest and right:
        res.ok("class:right-assoc=assignments", note=",".join(sorted(right)))
    else:
        res.bad("class:right-assoc=assignments", "right-associative operators %s differ from the loosest level %s" % (sorted(right), sorted(lowest)),
                "parser/src/lib.rs")

    # -- T3: Rule -> BinOperator map: total on bin_op \ {reduce}, and Display(BinOperator(rule)) == literal(rule)
    fb = f.lib.body("<bin_operator::BinOperator as std::convert::From<simplesl_parser::Rule>>::from")
    if res.anchor(fb is not None, "BinOperator::from(Rule)"):
        sw, arms = tablesrc.rule_dispatch(fb)
        if res.anchor(sw is not None, "match on Rule in BinOperator::from"):
            res.floor(len(arms), 30, "rule_to_binop_arms")
            seen_ops = {}
            for n in infix:
                key = "binop-map:%s" % n
                if n == "reduce":
                    continue
                if n not in arms:
                    res.bad(key, "infix rule `%s` has no arm in BinOperator::from(Rule) (falls into unreachable!())" % n, fb.where())
                    continue
                ops = [v for a, v in arms[n]["aggs"] if a == "bin_operator::BinOperator"]
                if len(ops) != 1:
                    res.bad(key, "arm for `%s` in BinOperator::from does not build exactly one BinOperator" % n, fb.where())
                    continue
                op = ops[0]
                lit = g.literal(n)
                if disp_bin.get(op) != lit:
                    res.bad(key, "rule `%s` (token %r) is mapped to BinOperator::%s whose token is %r" % (n, lit, op, disp_bin.get(op)),
                            fb.where())
                    continue
                if op in seen_ops:
                    res.bad(key, "BinOperator::%s produced for both `%s` and `%s`" % (op, seen_ops[op], n), fb.where())
                    continue
                seen_ops[op] = n
                res.ok(key, note="%s -> %s %r" % (n, op, lit))
            for n in arms:
                if n not in infix:
                    res.bad("binop-map-extra:%s" % n, "BinOperator::from has an arm for `%s` which is not an infix rule of the grammar" % n, fb.where())

    # -- T4: dispatch arms of create_prefix / create_postfix == grammar alternatives
    for fn, names, floor in (("instruction::prefix_op::<impl instruction::InstructionWithStr>::create_prefix", prefix, 3),
                             ("instruction::unary_operation::<impl instruction::InstructionWithStr>::create_postfix", postfix, 14)):
        b = f.lib.body(fn)
        if not res.anchor(b is not None, fn):
            continue
        b, sw, arms = dispatch_in_cluster(f.lib, b)
        if not res.anchor(sw is not None, "match on Rule in " + fn):
            continue
        res.floor(len(arms), floor, "arms:" + fn.rsplit("::", 1)[-1])
        for n in names:
            key = "dispatch:%s:%s" % (fn.rsplit("::", 1)[-1], n)
            if n not in arms:
                res.bad(key, "operator rule `%s` has no arm in %s (falls into unexpected!())" % (n, fn.rsplit("::", 1)[-1]), b.where())
            else:
                loc = [c for c in arms[n]["calls"] if not c.startswith(("std::", "core::", "alloc::", "<std::", "<core::", "<alloc::", "pest::", "<pest::"))]
                res.ok(key, note="-> " + (loc[0] if loc else "?"))
        for n in arms:
            if n not in names:
                res.bad("dispatch-extra:%s:%s" % (fn.rsplit("::", 1)[-1], n), "arm for `%s` which the grammar cannot produce here" % n, b.where())
    # create_infix: reduce handled before BinOperator::from
    ci = f.lib.body("instruction::bin_op::<impl instruction::InstructionWithStr>::create_infix")
    if res.anchor(ci is not None, "create_infix"):
        has_reduce = any(c.callee.endswith("Reduce::create_instruction") for c in ci.calls)
        has_from = any(c.callee == "<bin_operator::BinOperator as std::convert::From<simplesl_parser::Rule>>::from" for c in ci.calls)
        if has_reduce and has_from:
            res.ok("dispatch:create_infix:reduce+from")
        else:
            res.bad("dispatch:create_infix:reduce+from", "create_infix no longer routes `reduce` to Reduce and the rest through BinOperator::from", ci.where())

    # -- T5: ordered-choice shadowing. Sequence positions as pest tries them inside `expr`:
    #    after a primary: postfix_op alternatives in order, then bin_op alternatives in order;
    #    before a primary: prefix_op alternatives in order.
    after_primary = postfix + infix
    pairs = 0
    for seq, what in ((after_primary, "postfix_op* then bin_op"), (prefix, "prefix_op")):
        for i, a in enumerate(seq):
            la = g.literal(a)
            if la is None:
                continue     # not a pure literal: it can fail after its first token and let later ones match
            for b_ in seq[i + 1:]:
                lb = g.leading_literal(b_)
                if lb is None:
                    continue
                pairs += 1
                key = "shadow:%s<%s" % (a, b_)
                if lb.startswith(la):
                    if len(lb) > len(la):
                        res.bad(key, "in %s, `%s` (%r) is tried before `%s` (%r): the longer operator is split" % (what, a, la, b_, lb),
                                "parser/src/simplesl.pest")
                    else:
                        res.bad(key, "`%s` (%r) is tried before `%s`, which starts with the same literal: the second can never match"
                                % (a, la, b_), "parser/src/simplesl.pest")
                else:
                    res.ok(key)
    res.floor(pairs, 300, "literal_pairs_checked")
    # every operator rule is a token-producing (non-silent) rule with a distinct name, else PrattParser cannot see it
    for n in infix + prefix + postfix:
        if not g.produces_token(n):
            res.bad("token:%s" % n, "operator rule `%s` is silent: the Pratt parser never sees it" % n, "parser/src/simplesl.pest")
    # expr must be atom (bin_op atom)*, atom = prefix_op? primary postfix_op*  (shape the Pratt summary relies on)
    seqs = set(g.sequences("expr", max_len=3))
    labels = set(g.child_labels("expr"))
    ops_all = set(infix + prefix + postfix)
    prim = labels - ops_all
    if ops_all <= labels and prim:
        res.ok("shape:expr-children", note="%d primaries, %d operators" % (len(prim), len(ops_all)))
    else:
        res.bad("shape:expr-children", "children of `expr` do not contain all operator rules: missing %s" % sorted(ops_all - labels),
                "parser/src/simplesl.pest")
    res.stats["operators"] = len(ops_all)
    return res


# ---------------------------------------------------------------------------------------------------------------
# dispatch tables: every alternative the grammar can hand to a pair-walking function has an arm there

DISPATCH = [
    # (function, grammar rules whose alternatives it must handle, extra rules handled elsewhere {rule: where}, floor)
    ("instruction::InstructionWithStr::create_primary", ["primary"], {}, 14),
    ("instruction::Instruction::new", ["line", "stm", "body"], {}, 16),
    ("<variable::r#type::Type as std::convert::From<pest::iterators::Pair<'_, simplesl_parser::Rule>>>::from", ["type"], {}, 13),
    ("instruction::control_flow::match_arm::MatchArm::new", ["match_arm"], {}, 3),
    ("<variable::Variable as std::convert::TryFrom<pest::iterators::Pair<'_, simplesl_parser::Rule>>>::try_from::parse_int", ["int"], {}, 4),
    ("<variable::Variable as std::convert::TryFrom<pest::iterators::Pair<'_, simplesl_parser::Rule>>>::try_from", ["var_from_str"], {}, 11),
]
RADIX = {"binary_int": ("2", "0b"), "octal_int": ("8", "0o"), "decimal_int": ("10", None), "hexadecimal_int": ("16", "0x")}


def _mentioned_rules(body):
    """Rule unit variants named anywhere in the body (e.g. `pair.as_rule() == Rule::expr` comparisons)."""
    out = set()
    for _, s in body.assigns():
        rv = s["rv"]
        if rv["k"] == "agg" and rv.get("adt") == "simplesl_parser::Rule" and not rv["ops"]:
            out.add(rv["variant"])
        o = rv.get("o")
        if isinstance(o, dict) and o.get("k") == "const" and o.get("ty") == "simplesl_parser::Rule":
            out.add(o["val"].rsplit("::", 1)[-1])
    for pb in body.raw.get("promoted", []):
        for blk in pb["blocks"]:
            for st in blk["stmts"]:
                if st["k"] == "assign" and st["rv"]["k"] == "agg" and st["rv"].get("adt") == "simplesl_parser::Rule":
                    out.add(st["rv"]["variant"])
    return out


def dispatch_in_cluster(lib, b):
    """the match on Rule of function b, or - when it was moved out - of a helper function that belongs to b alone"""
    sw, arms = tablesrc.rule_dispatch(b)
    if sw is not None:
        return b, sw, arms
    from ..owners import for_crate
    own = for_crate(lib)
    for hb in own.cluster(b.id):
        if hb is b:
            continue
        sw, arms = tablesrc.rule_dispatch(hb)
        if sw is not None:
            return hb, sw, arms
    return b, None, {}


def run_dispatch(ctx, only=None):
    res = RuleResult("R-TABLES-D", "every alternative the grammar can hand to a pair-walking function has its own arm there (a missing "
                                   "arm is a panic in unexpected!/unreachable!, or - for value literals - a form that can never be built)")
    f = ctx.facts
    g = Grammar(f.grammar)
    lib = f.lib
    for fn, rules, elsewhere, floor in DISPATCH:
        if only and not any(r in only for r in rules):
            continue
        b = lib.body(fn)
        short = ("Type::from(Pair)" if fn.endswith(">::from") else "Variable::try_from" if fn.endswith(">::try_from")
                 else "Variable::try_from::parse_int" if fn.endswith("::parse_int") else "::".join(fn.rsplit("::", 2)[-2:]))
        if not res.anchor(b is not None, fn):
            continue
        b, sw, arms = dispatch_in_cluster(lib, b)
        if not res.anchor(sw is not None, "match on Rule in " + fn):
            continue
        handled = set(arms) | _mentioned_rules(b)
        want = []
        for r in rules:
            if not res.anchor(r in g.rules, "grammar rule `%s`" % r):
                continue
            for k, n in g.alternatives(r):
                if k == "rule":
                    want.append(n)
                else:
                    # an inline expression alternative: its token-producing children
                    pass
        # `expr_in_brackets` / `body` style silent wrappers are expanded by alternatives(); de-duplicate
        want = sorted(set(want))
        res.floor(len(arms), floor, "arms:" + short)
        for n in want:
            key = "arm:%s:%s" % (short, n)
            if n in handled:
                res.ok(key, b.where(), "")
            elif n in elsewhere:
                res.ok(key, b.where(), elsewhere[n])
            else:
                res.bad(key, "grammar alternative `%s` of %s has no arm in %s" % (n, "/".join(rules), fn), b.where())
        for n in sorted(set(arms) - set(want)):
            # an arm for a rule the grammar cannot deliver here is dead code, not a violation; recorded as information
            res.info.append("%s has an arm for `%s`, which %s cannot deliver" % (short, n, "/".join(rules)))
    # integer literal radix table
    if not only or "int" in only:
        b = lib.body(DISPATCH[4][0])
        if b is not None:
            sw, arms = tablesrc.rule_dispatch(b)
            for rule, (radix, prefix) in RADIX.items():
                key = "radix:%s" % rule
                a = arms.get(rule)
                if a is None:
                    continue
                reg = set(arm_region(b, a["target"]))
                consts = set()
                for c in b.calls:
                    if c.bb in reg and c.callee.endswith("parse_int_with_radix"):
                        for x in c.args:
                            if x.get("k") == "const" and "bits" in x:
                                consts.add(x["bits"])
                lit = None
                if rule in g.rules:
                    e = g.rules[rule]["expr"]
                    lit = e["a"]["s"] if e["k"] == "seq" and e["a"]["k"] == "str" else None
                if consts == {radix} and lit == prefix:
                    res.ok(key, b.where(), "prefix %r -> radix %s" % (prefix, radix))
                else:
                    res.bad(key, "integer literal form `%s` (prefix %r) is parsed with radix %s, expected %s" % (rule, lit, sorted(consts), radix), b.where())
    return res
