"""Small structural clauses used by single properties."""
from ..engine import RuleResult
from ..model import enum_switches, arm_region, aggregates, calls_in, op_local, places_read
from .evalorder import recv

VAR = "variable::Variable"


def run_fnexit(ctx):
    """C01: a function declared to return T never yields a non-T by falling off its end."""
    res = RuleResult("R-FNEXIT", "Function::exec turns `body ran to its end` into (), and the MissingReturn guards of both function "
                                 "creators are what keeps that from happening for a non-() return type")
    lib = ctx.facts.lib
    b = lib.body("function::Function::exec")
    if res.anchor(b is not None, "Function::exec"):
        # the Ok arm of the match on interpreter.exec(..) builds Ok(Variable::Void)
        from ..owners import for_crate
        good = False
        for hb in for_crate(lib).members("function::Function::exec"):
            for sw in [s for s in enum_switches(hb, "std::result::Result") if "Ok" in s["arms"]]:
                reg = set(arm_region(hb, sw["arms"]["Ok"]))
                vs = [s["rv"]["variant"] for i, s in hb.assigns() if i in reg and s["rv"]["k"] == "agg" and s["rv"].get("adt") == VAR]
                if vs == ["Void"]:
                    good = True
        if good:
            res.ok("fnexit:void", b.where(), "falling off the end yields ()")
        else:
            res.bad("fnexit:void", "Function::exec no longer yields () when the body ends without `return`", b.where())
    for f in ("instruction::function::anonymous::AnonymousFunction::create_instruction",
              "instruction::function::declaration::FunctionDeclaration::create_instruction"):
        fb = lib.body(f)
        if not res.anchor(fb is not None, f):
            continue
        has = any(True for _ in aggregates(fb, "errors::error::Error", "MissingReturn"))
        void_test = any(c.callee == "variable::r#type::Type::matches" for c in fb.calls)
        never_test = any(s["rv"]["variant"] == "Never" for cb in lib.with_closures(f) for _, s in aggregates(cb, "variable::r#type::Type"))
        key = "fnexit:missing-return:" + f.rsplit("::", 2)[-2]
        if has and void_test:
            res.ok(key, fb.where(), "non-() return type requires a statement of type `!` in the body")
        else:
            res.bad(key, "%s no longer rejects a non-() function whose body has no diverging statement" % f, fb.where())
    return res


def run_retain(ctx):
    """C04: LocalVariables::create_instructions drops only constant (Instruction::Variable) non-last statements."""
    res = RuleResult("R-RETAIN", "the statement filter of create_instructions removes nothing but Instruction::Variable (a constant has "
                                 "no effect); the last statement is kept")
    lib = ctx.facts.lib
    fid = "instruction::local_variable::LocalVariables::<'a>::create_instructions"
    b = lib.body(fid)
    if not res.anchor(b is not None, fid):
        return res
    retain = [c for c in b.calls if c.callee.endswith("::retain")]
    pops = [c for c in b.calls if c.callee.endswith("::pop")]
    push = [c for c in b.calls if c.callee.endswith("::push")]
    if len(retain) == 1 and pops and push and b.dominates(pops[0].bb, retain[0].bb) and b.dominates(retain[0].bb, push[0].bb):
        res.ok("retain:last-kept", b.where(), "last statement popped before the filter and pushed back after it")
    else:
        res.bad("retain:last-kept", "create_instructions must filter only the non-last statements", b.where())
    arms = set()
    other = 0
    # the filter: a closure of create_instructions, or a private function handed to `retain` by name
    named = []
    for c in retain:
        for a in c.args:
            if isinstance(a, dict) and a.get("k") == "const" and "fn" in a:
                nb = lib.body(a["fn"].get("resolved") or a["fn"]["path"])
                if nb is not None:
                    named.append(nb)
    for cb in list(lib.closures_of(fid)) + named:
        sws = enum_switches(cb, "instruction::Instruction")
        if not sws:
            continue            # the map closure that builds the statements
        for sw in sws:
            arms |= set(sw["arms"])
        other += len([c for c in cb.calls if c.callee and not c.callee.startswith(("std::", "core::"))])
    if arms == {"Variable"} and other == 0:
        res.ok("retain:only-constants", b.where(), "the filter looks at the discriminant only and singles out Instruction::Variable")
    else:
        res.bad("retain:only-constants", "the statement filter singles out %s (and calls %d crate functions): statements with effects "
                                         "may be dropped" % (sorted(arms), other), b.where())
    return res


def run_units(ctx):
    """C09: indexing, slicing and len all count Unicode scalar values."""
    res = RuleResult("R-UNITS", "at::exec, Slicing::exec and std.len measure strings with str::chars and never with byte lengths")
    lib = ctx.facts.lib
    BYTEY = ("core::str::<impl str>::len", "core::str::<impl str>::bytes", "core::str::<impl str>::as_bytes",
             "core::str::<impl str>::char_indices", "core::str::<impl str>::get", "std::string::String::len",
             "core::str::<impl str>::is_char_boundary", "core::str::<impl str>::split_at")
    for f in ("instruction::at::exec", "<instruction::slicing::Slicing as instruction::Exec>::exec", "stdlib::len"):
        b = lib.body(f)
        if not res.anchor(b is not None, f):
            continue
        from ..owners import for_crate
        callees = {c.callee for bb in for_crate(lib).members(f) for c in bb.calls}
        key = "units:" + f
        if any(x in callees for x in BYTEY):
            res.bad(key, "%s measures a string in bytes (%s): multi-byte characters break s[i] / slices / len agreement"
                    % (f, sorted(x for x in BYTEY if x in callees)), b.where())
        elif "core::str::<impl str>::chars" in callees:
            res.ok(key, b.where(), "counts chars")
        else:
            res.bad(key, "%s no longer iterates the string by chars" % f, b.where())
    # at::exec normalises a negative index with the same len()
    b = lib.body("instruction::at::exec")
    if b is not None:
        from ..owners import for_crate
        cl = for_crate(lib).members("instruction::at::exec")
        if any(c.callee == "stdlib::len" for hb in cl for c in hb.calls):
            res.ok("units:at-uses-len", b.where(), "negative indices are normalised with stdlib::len (same unit)")
        else:
            res.bad("units:at-uses-len", "at::exec no longer normalises negative indices with stdlib::len", b.where())
    # every IndexOutOfBounds path: both the underflow and the overflow side construct the error (3 sites reviewed)
    if b is not None:
        n = sum(len(aggregates(hb, "errors::exec_error::ExecError", "IndexOutOfBounds")) for hb in for_crate(lib).members("instruction::at::exec"))
        if n >= 3:
            res.ok("units:at-oob-sites", b.where(), "%d IndexOutOfBounds sites (underflow, string, array)" % n)
        else:
            res.bad("units:at-oob-sites", "at::exec has %d IndexOutOfBounds sites, 3 reviewed (underflow, string, array)" % n, b.where())
    return res


def run_direction(ctx):
    """C17: host calls check arguments in the same direction as in-language calls."""
    res = RuleResult("R-DIRECTION", "in both argument checks the argument's type is the receiver of Type::matches and the parameter's "
                                    "declared type is its argument (argument <: parameter)")
    lib = ctx.facts.lib
    for f, src in (("instruction::function::call::check_args_with_params", "variable::r#type::ReturnType::return_type"),
                   ("instruction::function::call::create_from_variables", "variable::r#type::Typed::as_type")):
        b = lib.body(f)
        if not res.anchor(b is not None, f):
            continue
        ms = [c for c in b.calls if c.callee == "variable::r#type::Type::matches"]
        key = "direction:" + f
        if len(ms) != 1:
            res.bad(key, "%s must compare each argument with its parameter exactly once (found %d Type::matches calls)" % (f, len(ms)), b.where())
            continue
        c = ms[0]
        r0 = recv(b, c.args[0])
        r1 = recv(b, c.args[1])
        # receiver: a local holding the result of return_type()/as_type(); argument: field var_type of the Param
        recv_ok = False
        if r0 is not None:
            for d in b.def_sites(r0[0]):
                if d[1] == "call" and d[2]["func"].get("fn", {}).get("path") == src:
                    recv_ok = True
        arg_ok = r1 is not None and r1[1][-1:] == ("var_type",)
        if recv_ok and arg_ok:
            res.ok(key, b.where(c.line), "argument type .matches(parameter type)")
        else:
            res.bad(key, "%s compares in the wrong direction (or something else): receiver from %s: %s, argument is Param.var_type: %s"
                    % (f, src, recv_ok, arg_ok), b.where(c.line))
    # arity test present in both, and it compares the two lengths as given: `len(params) != len(args)`
    for f in ("instruction::function::call::check_args_with_params", "instruction::function::call::create_from_variables"):
        b = lib.body(f)
        if b is None:
            continue
        aggs = aggregates(b, "errors::error::Error", "WrongNumberOfArguments")
        if len(aggs) != 1:
            res.bad("arity:" + f, "%s no longer rejects a wrong number of arguments" % f, b.where())
            continue
        from .guard import controlling_switch
        sw, _, _ = controlling_switch(b, aggs[0][0])
        ok = False
        if sw is not None:
            dl = op_local(b.blocks[sw]["term"]["discr"])
            for _, st in b.assigns():
                if st["place"]["l"] == dl and st["rv"]["k"] == "binop" and st["rv"]["op"] in ("Ne", "Eq"):
                    srcs = []
                    for o in (st["rv"]["a"], st["rv"]["b"]):
                        ds = b.def_sites(op_local(o)) if op_local(o) is not None else []
                        srcs.append(ds[0][2]["func"].get("fn", {}).get("path", "") if (len(ds) == 1 and ds[0][1] == "call") else "")
                    if all(x.rsplit("::", 1)[-1] == "len" for x in srcs) and len(srcs) == 2:
                        ok = True
        if ok:
            res.ok("arity:" + f, b.where(), "WrongNumberOfArguments is guarded by len(params) != len(args)")
        else:
            res.bad("arity:" + f, "%s does not compare the number of parameters with the number of arguments as given (two len() "
                                  "results): surplus or missing arguments may be accepted" % f, b.where())
    # Code::exec builds its own interpreter
    b = lib.body("code::Code::exec")
    if res.anchor(b is not None, "Code::exec"):
        mk = [c for c in b.calls if c.callee == "interpreter::Interpreter::<'a>::without_stdlib"]
        ex = [c for c in b.calls if c.callee == "code::Code::exec_unscoped"]
        if len(mk) == 1 and len(ex) == 1 and b.arg_count == 1:
            res.ok("isolated:Code::exec", b.where(), "takes only &self; runs in a fresh Interpreter::without_stdlib()")
        else:
            res.bad("isolated:Code::exec", "Code::exec must run the code in a fresh interpreter of its own", b.where())
    return res


def run_render(ctx):
    """C20: rendering shape of literal values."""
    res = RuleResult("R-RENDER", "arrays and tuples render their elements through Variable::debug (nested strings stay quoted), and debug "
                                 "formats int/float/string with {:?} (floats keep their decimal point, strings are escaped)")
    lib = ctx.facts.lib
    sb = lib.body("variable::Variable::string")
    ab = lib.body("variable::array::Array::string")
    db = lib.body("variable::Variable::debug")
    if not (res.anchor(sb is not None, "Variable::string") and res.anchor(ab is not None, "Array::string") and res.anchor(db is not None, "Variable::debug")):
        return res
    from ..owners import for_crate
    own = for_crate(lib)
    for name, b in (("Variable::string(Tuple)", sb), ("Array::string", ab)):
        # the element closures of the function and of helper functions that belong to it alone
        members = [hb for hb in own.cluster(b.id)]
        cs = {c.callee for hb in members if "{closure" in hb.id for c in hb.calls}
        key = "render:elements:" + name
        if "variable::Variable::debug" in cs and "variable::Variable::string" not in cs:
            res.ok(key, b.where(), "element closure calls Variable::debug")
        else:
            res.bad(key, "%s renders elements without Variable::debug: a string inside an array / tuple loses its quotes and cannot be "
                         "parsed back" % name, b.where())
    # debug: arms Int/Float/String use Argument::new_debug
    sw = [s for s in enum_switches(db, VAR)]
    key = "render:debug-arms"
    if sw:
        ok = True
        for v in ("Int", "Float", "String"):
            t = sw[0]["arms"].get(v)
            if t is None:
                ok = False
                continue
            cs = [c.callee for c in calls_in(db, arm_region(db, t))]
            reach = lib.reach([c for c in cs if c])
            if not any("new_debug" in c for c in cs) and not any(x.endswith("::escape_debug") for x in reach):
                ok = False          # neither {:?} nor an escape_debug-based renderer
        if ok:
            res.ok(key, db.where(), "Int / Float / String are formatted with {:?}")
        else:
            res.bad(key, "Variable::debug no longer formats Int / Float / String with {:?}", db.where())
    else:
        res.bad(key, "no match on Variable in Variable::debug", db.where())
    # Debug for Variable = debug(0)
    fb = lib.body("<variable::Variable as std::fmt::Debug>::fmt")
    if res.anchor(fb is not None, "Debug for Variable"):
        if any(c.callee == "variable::Variable::debug" for c in fb.calls):
            res.ok("render:Debug=debug", fb.where())
        else:
            res.bad("render:Debug=debug", "the REPL's {:?} rendering no longer goes through Variable::debug", fb.where())
    return res


def run_looptype(ctx):
    """C01 / C12: a loop evaluates to () and is typed (); break / continue are typed `!`."""
    res = RuleResult("R-LOOPTYPE", "Instruction::Loop is given the constant static type () (the value Loop::exec yields when the loop "
                                   "is left), Break / Continue the type `!`; none of them is typed by a computed analysis")
    lib = ctx.facts.lib
    rt = "<instruction::Instruction as variable::r#type::ReturnType>::return_type"
    b = lib.body(rt)
    if res.anchor(b is not None, rt):
        sws = enum_switches(b, "instruction::Instruction")
        if res.anchor(bool(sws), "match on Instruction in Instruction::return_type"):
            sw = sws[0]
            for var, want in (("Loop", "Void"), ("Break", "Never"), ("Continue", "Never")):
                key = "looptype:%s" % var
                t = sw["arms"].get(var)
                if t is None:
                    res.bad(key, "Instruction::%s has no arm of its own in Instruction::return_type (typed by some computation)" % var, b.where())
                    continue
                reg = set(arm_region(b, t))
                built = [s["rv"]["variant"] for i, s in b.assigns() if i in reg and s["rv"]["k"] == "agg" and s["rv"].get("adt") == "variable::r#type::Type"]
                calls = [c.callee for c in calls_in(b, arm_region(b, t)) if c.callee and not c.callee.startswith(("std::", "core::", "<std::", "<core::"))]
                if built == [want] and not calls:
                    res.ok(key, b.where(), "Instruction::%s : %s" % (var, "()" if want == "Void" else "!"))
                else:
                    res.bad(key, "Instruction::%s must have the constant static type %s; its arm builds %s and calls %s: a loop that is left "
                                 "(break, false condition, exhausted iterator) yields () whatever its body's type is"
                            % (var, "()" if want == "Void" else "!", built, calls[:2]), b.where())
    lb = lib.body("<instruction::r#loop::Loop as instruction::Exec>::exec")
    if res.anchor(lb is not None, "Loop::exec"):
        vs = [s["rv"]["variant"] for _, s in aggregates(lb, VAR)]
        if vs == ["Void"]:
            res.ok("looptype:exec-yields-void", lb.where(), "Loop::exec yields () when the loop is left")
        else:
            res.bad("looptype:exec-yields-void", "Loop::exec builds %s as its value" % vs, lb.where())
    return res


def run_slicetype(ctx):
    """C09 / C01: a slice is a sequence of the same kind as the sliced value."""
    res = RuleResult("R-SLICETYPE", "Slicing::return_type is the sliced operand's type: it does not pass through an element-extracting "
                                    "Type query (element_type / index_result / iter_element), while `s[i]` (at) does")
    lib = ctx.facts.lib
    from ..owners import for_crate
    rt = "<instruction::slicing::Slicing as variable::r#type::ReturnType>::return_type"
    b = lib.body(rt)
    if res.anchor(b is not None, rt):
        callees = {c.callee for hb in for_crate(lib).members(rt) for c in hb.calls}
        extract = sorted(x for x in callees if x.rsplit("::", 1)[-1] in ("element_type", "index_result", "iter_element", "mut_element_type", "tuple_element_at"))
        lhs = [c for c in b.calls if c.path.endswith("ReturnType::return_type")]
        if extract:
            res.bad("slicetype:return_type", "Slicing::return_type derives the slice's type with %s: a slice of [T] is typed T, so `a[1:] + 1` is "
                                             "accepted and panics while `a[1:] + [9]` is rejected" % ", ".join(extract), b.where())
        elif lhs:
            res.ok("slicetype:return_type", b.where(), "type of the sliced operand, unchanged")
        else:
            res.bad("slicetype:return_type", "Slicing::return_type no longer derives from the sliced operand's type", b.where())
    bo = lib.body("<instruction::bin_op::BinOperation as variable::r#type::ReturnType>::return_type")
    if res.anchor(bo is not None, "BinOperation::return_type"):
        sws = enum_switches(bo, "bin_operator::BinOperator")
        ok = False
        for sw in sws:
            t = sw["arms"].get("At")
            if t is not None and any(c.callee.endswith("::index_result") for c in calls_in(bo, arm_region(bo, t))):
                ok = True
        if ok:
            res.ok("slicetype:at-uses-index_result", bo.where(), "`s[i]` is typed with index_result (the element)")
        else:
            res.bad("slicetype:at-uses-index_result", "BinOperator::At is no longer typed with Type::index_result", bo.where())
    return res


def run_celltype(ctx):
    """C13 / C01: the content type of a cell is fixed when the `mut` expression is checked."""
    res = RuleResult("R-CELLTYPE", "a cell is tagged with the content type fixed at creation of the `mut` instruction (declared, or inferred "
                                   "once from the initialiser's static type): executing, folding and typing the instruction copy that "
                                   "field and never re-derive the type from the (possibly narrowed) initialiser")
    lib = ctx.facts.lib
    from ..owners import for_crate
    own = for_crate(lib)
    M = "instruction::r#mut::Mut"
    rows = (("<%s as instruction::Exec>::exec" % M, "the run-time cell"), ("<%s as instruction::Recreate>::recreate" % M, "the folded instruction"),
            ("<%s as variable::r#type::ReturnType>::return_type" % M, "the static type of the `mut` expression"))
    for fid, what in rows:
        b = lib.body(fid)
        if not res.anchor(b is not None, fid):
            continue
        members = own.members(fid)
        asks = [c for hb in members for c in hb.calls if c.path == "variable::r#type::ReturnType::return_type" and hb.id != "<%s as variable::r#type::ReturnType>::return_type" % M]
        reads = [pl for hb in members for _, pl, _ in places_read(hb) if any(e["k"] == "field" and e.get("name") == "var_type" and e.get("owner", "").startswith(M) for e in pl["p"])]
        key = "celltype:%s" % fid
        if asks:
            res.bad(key, "%s derives the cell's content type from the initialiser's type at this point (%s): after constant propagation / "
                         "capture the initialiser is narrower than when the program was checked, so the cell is tagged narrower than its "
                         "static type `mut T` (cells are invariant)" % (fid, what), members[0].where(asks[0].line))
        elif not reads:
            res.bad(key, "%s no longer copies the content type fixed at creation (field var_type)" % fid, b.where())
        else:
            res.ok(key, b.where(), "%s carries the var_type field fixed at creation" % what)
    # creation: the only place that may infer
    cb = lib.body("%s::create_instruction" % M)
    if res.anchor(cb is not None, M + "::create_instruction"):
        if any(c.path == "variable::r#type::ReturnType::return_type" for c in cb.calls):
            res.ok("celltype:create", cb.where(), "the content type is declared or inferred here, once")
        else:
            res.bad("celltype:create", "Mut::create_instruction no longer looks at the initialiser's static type", cb.where())
    return res


def run_escapes(ctx):
    """C20: the string literal grammar reads every escape the renderer writes."""
    res = RuleResult("R-ESCAPES", "writer's table ⊆ reader's table: each escape sequence Rust's {:?} rendering of a string can emit is "
                                  "accepted by the grammar rule `string` (evaluated on the grammar data, PEG semantics)")
    from ..grammar import Grammar, peg_match
    g = Grammar(ctx.facts.grammar)
    if not res.anchor("string" in g.rules and g.ty("string") in ("compound", "atomic"), "atomic grammar rule `string`"):
        return res
    # what char::escape_debug / str's Debug can write inside the quotes (std documentation; trusted constant table)
    writer = {"\\0": "NUL", "\\t": "tab", "\\r": "CR", "\\n": "LF", "\\'": "single quote (char only)", '\\"': "double quote",
              "\\\\": "backslash", "\\u{7f}": "other control / non-printable (\\u{..})", "\\u{301}": "grapheme extender"}
    for esc, what in writer.items():
        lit = '"a' + esc + 'b"'
        key = "escape:%s" % esc
        if peg_match(g, "string", lit):
            res.ok(key, "parser/src/simplesl.pest", "%s: %s is a string literal" % (what, lit))
        else:
            res.bad(key, "the REPL renders %s as %s, but the grammar rule `string` does not accept %s: a printed string containing it "
                         "cannot be parsed back" % (what, esc, lit), "parser/src/simplesl.pest")
    # negative controls: the evaluator is not vacuous
    res.control(not peg_match(g, "string", '"a"b"') and not peg_match(g, "string", '"a\\"'), "peg evaluator rejects an unescaped quote / dangling backslash")
    res.control(peg_match(g, "string", '"plain"'), "peg evaluator accepts a plain string")
    return res
