"""R-PAIRFLOW: grammar <-> pair-walking code, for all child sequences the grammar can produce."""
from ..engine import RuleResult
from ..grammar import Grammar
from ..pairflow import PairFlow
from .. import tablesrc

ROOTS = ["code::Code::parse", "<variable::Variable as std::str::FromStr>::from_str", "<variable::r#type::Type as std::str::FromStr>::from_str",
         "instruction::local_variable::LocalVariables::<'a>::parse_input"]


def make(lib, facts):
    g = Grammar(facts.grammar)
    levels = tablesrc.pratt_levels(facts.parser)
    ops = {"prefix": set(), "infix": set(), "postfix": set()}
    for lv in levels:
        for fix, rule, _ in lv:
            ops[fix].add(rule)
    return PairFlow(lib, g, ops), g


def run(ctx):
    res = RuleResult("R-PAIRFLOW", "abstract interpretation of every Pair-walking function against the grammar's child-sequence "
                                   "automata: no unwrap of a child the grammar allows to be absent, no rule reaches a panicking "
                                   "default arm of a match on Rule")
    lib = ctx.facts.lib
    try:
        pf, g = make(lib, ctx.facts)
    except tablesrc.TableError as e:
        res.anchor(False, str(e))
        return res
    for r in ROOTS:
        if res.anchor(lib.body(r) is not None, r):
            b = lib.body(r)
            pf.analyse(r, [None] * b.arg_count, [], force=True)
    # one violation per (kind, function, calling function): the rules that reach a default arm are listed, not multiplied
    groups = {}
    for f in pf.findings.values():
        def fn_of(c):
            head, _, tail = c.rpartition(":")
            return head if tail.isdigit() and head else c
        callers = [fn_of(c) for c in f.chain if fn_of(c) != f.fn]
        caller = callers[-1] if callers else ""
        g2 = groups.setdefault((f.kind, f.fn, caller), {"rules": set(), "f": f})
        if f.kind == "default-arm":
            g2["rules"].update(r.strip("' ") for r in f.detail[f.detail.index("[") + 1:f.detail.index("]")].split(","))
    for (kind, fn, caller), g2 in sorted(groups.items()):
        f = g2["f"]
        fb = lib.body(fn)
        key = "pairflow:%s|%s|from:%s" % (kind, fn, caller)
        if kind == "default-arm":
            rs = sorted(g2["rules"])
            msg = "%d grammar rules (%s%s) handed over by %s reach the default arm of the match on Rule in %s, which panics" % (
                len(rs), ", ".join(rs[:8]), ", ..." if len(rs) > 8 else "", caller, fn)
        else:
            msg = "%s in %s" % (f.detail, fn)
        res.bad(key, msg + " (flow: %s)" % " -> ".join(f.chain[-5:]), fb.where(f.line) if fb else "")
    bad_sites = {(fn, line) for (k, fn, d), f in pf.findings.items() for line in [f.line]}
    for (fn, line), verdict in sorted(pf.unwrap_sites.items(), key=lambda x: (x[0][0], x[0][1] or 0)):
        if verdict == "ok":
            res.ok("pairflow:unwrap|%s" % fn, lib.body(fn).where(line), "child present on every child sequence of the grammar")
    for (fn, line), rules in sorted(pf.dispatch_sites.items(), key=lambda x: (x[0][0], x[0][1] or 0)):
        if (fn, line) not in bad_sites:
            res.ok("pairflow:dispatch|%s" % fn, lib.body(fn).where(line), "rules seen: %s" % ",".join(sorted(rules))[:200])
    st = pf.stats
    res.stats.update({"functions": len(st["functions"]), "configs": st["configs"], "next_forks": st["next_forks"],
                      "unwraps_checked": st["unwraps_checked"], "unwrap_sites": len(pf.unwrap_sites), "dispatches": st["dispatches"],
                      "unknown_pairs": st["unknown_pairs"]})
    res.floor(len(st["functions"]), 40, "functions_analysed")
    res.floor(len(pf.unwrap_sites), 40, "unwrap_sites_visited")
    return res
