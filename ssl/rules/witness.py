"""Type-level witnesses: compile-pass / compile_fail doc tests of /verif/witness against the current tree."""
import os
import re
import shutil
import subprocess

from .. import extract
from ..engine import RuleResult

NAMES = {"W1SendSync": "Code, Variable, Function, Type, Mut, Interpreter<'static> are Send + Sync (twin: Rc<Variable> is rejected)",
         "W2CodeStatic": "Code: 'static - holds no borrow of the parse-time interpreter (twin: a borrowed Interpreter is rejected)",
         "W3MutNotClone": "a cell can be shared through its Arc but Mut itself is not Clone",
         "W4ExecIsolated": "Code::exec(&self) has no interpreter parameter; Code::parse takes &Interpreter"}


def _cap(d, limit):
    """every distinct tree leaves its own artifacts in the shared target dir: start afresh once it is larger than `limit` bytes"""
    total = 0
    for root, _, files in os.walk(d):
        for f in files:
            try:
                total += os.path.getsize(os.path.join(root, f))
            except OSError:
                pass
        if total > limit:
            shutil.rmtree(d, ignore_errors=True)
            return


def run(ctx, only=None):
    res = RuleResult("R-WITNESS", "compile-pass / compile_fail witnesses decided by rustc on the current tree")
    src = os.path.join(extract.VERIF, "witness")
    work = os.path.join(extract.CACHE, "witness-" + extract.tree_hash()[:12] + ("-mut" if extract.REPO != "/repo" else ""))
    done = os.path.join(work, "RESULT.txt")
    import fcntl
    lock = open(os.path.join(extract.CACHE, "witness.lock"), "w")
    fcntl.flock(lock, fcntl.LOCK_EX)        # one witness build at a time: the cargo target directory is shared (and capped)
    try:
        return _run_locked(res, src, work, done, only)
    finally:
        fcntl.flock(lock, fcntl.LOCK_UN)
        lock.close()


def _run_locked(res, src, work, done, only):
    if not os.path.exists(done):
        shutil.rmtree(work, ignore_errors=True)
        os.makedirs(os.path.join(work, "src"))
        shutil.copy(os.path.join(src, "src/lib.rs"), os.path.join(work, "src/lib.rs"))
        toml = open(os.path.join(src, "Cargo.toml.in")).read().replace("@REPO@", extract.REPO)
        open(os.path.join(work, "Cargo.toml"), "w").write(toml)
        shutil.copy(os.path.join(extract.REPO, "Cargo.lock"), os.path.join(work, "Cargo.lock"))
        tgt = os.path.join(extract.CACHE, "target-witness")
        _cap(tgt, 3 << 30)
        env = dict(os.environ, CARGO_TARGET_DIR=tgt, CARGO_NET_OFFLINE="true")
        env.pop("RUSTC_WORKSPACE_WRAPPER", None)
        r = subprocess.run(["cargo", "+nightly", "test", "--doc", "--offline", "--", "--test-threads", "8"], cwd=work, env=env,
                           stdout=subprocess.PIPE, stderr=subprocess.STDOUT, text=True)
        open(done, "w").write(r.stdout)
        # keep only the newest few work dirs
        ws = sorted((os.path.getmtime(os.path.join(extract.CACHE, d)), d) for d in os.listdir(extract.CACHE) if d.startswith("witness-"))
        for _, d in ws[:-4]:
            shutil.rmtree(os.path.join(extract.CACHE, d), ignore_errors=True)
    out = open(done).read()
    tests = re.findall(r"^test (src/lib\.rs - (\w+) \(line (\d+)\)( - compile fail)?) \.\.\. (\w+)", out, re.M)
    if not res.anchor(bool(tests), "doc tests of the witness crate ran (cargo output: %s)" % out[-400:].replace("\n", " | ")):
        return res
    per = {}
    for full, name, line, cf, verdict in tests:
        per.setdefault(name, []).append((bool(cf), verdict))
    for name, desc in NAMES.items():
        if only and name not in only:
            continue
        got = per.get(name, [])
        passes = [v for cf, v in got if not cf]
        fails = [v for cf, v in got if cf]
        key = "witness:" + name
        if not passes or not fails:
            res.broken.append("witness %s: expected a compile-pass and a compile_fail doc test, found %s" % (name, got))
            continue
        if all(v == "ok" for v in passes) and all(v == "ok" for v in fails):
            res.ok(key, "witness/src/lib.rs", desc)
        elif not all(v == "ok" for v in passes):
            res.bad(key, "the compile-pass witness no longer compiles: " + desc, "witness/src/lib.rs")
        else:
            # the twin compiled: the *checker* is off (its negative control is accepted), not the property
            res.broken.append("witness %s: the compile_fail twin compiles - the witness no longer discriminates" % name)
    return res
