"""Rules added after the fourth round of independent seeded changes.

R-INSTRSTATE  no struct of the parsed program (instruction layer, Code, Function) has a field with interior mutability
              (OnceLock, OnceCell, Cell, RefCell, Mutex, RwLock, atomics, Lazy*): parsed code is immutable, so executing it
              again - or evaluating one expression twice - cannot see anything an earlier execution left behind.
R-MEETCELL    Type::conjoin never recurses into the content of two `mut` types (cells are invariant: the meet of two cell
              types is one of them when they are equal and `!` otherwise)."""
import re

from ..engine import RuleResult
from .variance import analyse, flat

INTERIOR = re.compile(r"\b(OnceLock|OnceCell|LazyLock|LazyCell|Cell|RefCell|UnsafeCell|Mutex|RwLock|Atomic[A-Za-z0-9]+|Condvar|mpsc::|thread::LocalKey)\b")
PROGRAM_ADTS = ("instruction::", "code::", "function::")


def run_instrstate(ctx):
    res = RuleResult("R-INSTRSTATE", "the data structures of a parsed program (instructions, Code, Function) hold no interior-mutable field: "
                                     "nothing survives from one execution / evaluation to the next except through `mut` cells of the language")
    lib = ctx.facts.lib
    n = 0
    for name, a in sorted(lib.adts.items()):
        if not name.startswith(PROGRAM_ADTS):
            continue
        n += 1
        bad = []
        for v in a["variants"]:
            for f in v["fields"]:
                m = INTERIOR.search(f.get("ty", ""))
                if m:
                    bad.append((v["name"], f["name"], f.get("ty", ""), m.group(1)))
        key = "instrstate:%s" % name
        if bad:
            for vn, fn, ty, what in bad:
                res.bad("%s|%s" % (key, fn), "%s has field `%s: %s`: a %s inside parsed code is state shared by every execution of the Code and "
                                             "every evaluation of that instruction (a value computed once - an iterator, a cell, a parsed "
                                             "fragment - is reused when it must be fresh)" % (name, fn, ty, what), a.get("file", "") and "%s:%s" % (a.get("file"), a.get("line")))
        else:
            res.ok(key, "", "no interior mutability")
    res.floor(n, 40, "program_adts")
    # positive control
    fx = ctx.fixtures.adts.get("lock::Cell") if hasattr(ctx.fixtures, "adts") else None
    ok = False
    for name, a in (ctx.fixtures.adts or {}).items():
        for v in a["variants"]:
            for f in v["fields"]:
                if INTERIOR.search(f.get("ty", "")):
                    ok = True
    res.control(ok, "a fixture struct with an interior-mutable field is recognised")
    return res


CONJOIN = "variable::r#type::Type::conjoin"


def run_meetcell(ctx):
    res = RuleResult("R-MEETCELL", "the meet of parameter types never looks inside two `mut` types: cells are invariant, so conjoin(mut A, mut B) "
                                   "is `mut A` when A == B and `!` otherwise")
    lib = ctx.facts.lib
    b = lib.body(CONJOIN)
    if not res.anchor(b is not None, CONJOIN):
        return res
    # the provenance engine of R-VARIANCE with conjoin as the call of interest
    _, calls, _ = analyse(lib, CONJOIN, targets=(CONJOIN,))
    res.floor(len(calls), 3, "recursive conjoin calls")
    hit = [(cb, c) for cb, c, a0, a1 in calls if c.callee == CONJOIN and any(":Mut" in x for x in flat(a0) | flat(a1))]
    key = "meetcell:conjoin"
    if hit:
        cb, c = hit[0]
        res.bad(key, "Type::conjoin computes the meet of the contents of two `mut` types: conjoin(mut (int|float), mut int) becomes `mut int`, "
                     "which is not below `mut (int|float)` (cells are invariant) - the meet is no longer a lower bound of its arguments, and a "
                     "union of functions accepts a cell one of its members will write a wider value into", cb.where(c.line))
    else:
        res.ok(key, b.where(), "%d recursive calls, none on the content of a cell type" % len(calls))
    return res


# ---------------------------------------------------------------- R-DECLVALUES
def run_declvalues(ctx):
    res = RuleResult("R-DECLVALUES", "a declaration that introduces several names registers their VALUES (for constant propagation) only "
                                     "when it is recreated, after its right-hand side was resolved against the previous scope; creation "
                                     "registers types only")
    lib = ctx.facts.lib
    helper = "instruction::destruct_tuple::DestructTuple::insert_local_variables"
    key = "declvalues:DestructTuple"
    hb = lib.body(helper)
    if not res.anchor(hb is not None, helper):
        return res
    callers = sorted({b.id for b in lib.bodies.values() for c in b.calls if c.callee == helper})
    ok = [c for c in callers if c.endswith("Recreate>::recreate") or c.endswith("::recreate")]
    bad = [c for c in callers if c not in ok]
    if bad:
        res.bad(key, "%s registers the values of the names a destructuring declares while the statement is being created: the recreation "
                     "pass of the same statement (Code::parse recreates each statement right after creating it) then resolves reads of the "
                     "previous bindings on its right-hand side to the new constants - `(a, b) := (b, 5)` binds a to 5" % ", ".join(bad),
                lib.body(bad[0]).where())
    elif ok:
        res.ok(key, hb.where(), "values registered only by %s" % ", ".join(ok))
    else:
        res.anchor(False, "a caller of DestructTuple::insert_local_variables")
    # creation registers something (types): the names must exist for the statements that follow
    cb = lib.body("instruction::destruct_tuple::DestructTuple::create_instruction")
    if res.anchor(cb is not None, "DestructTuple::create_instruction"):
        reg = [c for c in cb.calls if "LocalVariables" in c.callee and c.callee.rsplit("::", 1)[-1] in ("extend", "insert")]
        if reg:
            res.ok(key + "|types", cb.where(reg[0].line), "creation registers the new names (by type)")
        else:
            res.bad(key + "|types", "DestructTuple::create_instruction registers none of the names it declares", cb.where())
    return res


# ---------------------------------------------------------------- R-FNLOCAL
def run_fnlocal(ctx):
    res = RuleResult("R-FNLOCAL", "the scope entry of a function literal records the type of the function's RESULT (its declared return "
                                  "type), not the type of the function")
    lib = ctx.facts.lib
    from ..model import aggregates, op_local
    from .export import single_def
    b = None
    for x in lib.bodies.values():
        if x.name == "from" and "AnonymousFunction" in x.id and "LocalVariable" in x.id:
            b = x
    key = "fnlocal:AnonymousFunction"
    if not res.anchor(b is not None, "impl From<&AnonymousFunction> for LocalVariable"):
        return res
    aggs = [s for _, s in aggregates(b, "instruction::local_variable::LocalVariable", "Function")]
    if not res.anchor(len(aggs) == 1, "LocalVariable::Function built in From<&AnonymousFunction>"):
        return res
    o = aggs[0]["rv"]["ops"][1]
    # trace the second component: a clone / copy of the field `return_type`, or the result of a call
    cur = o
    verdict = None
    for _ in range(8):
        l = op_local(cur)
        if l is None:
            break
        if any(e["k"] == "field" and e.get("name") == "return_type" for e in cur.get("p", [])):
            verdict = "field"
            break
        d = single_def(b, l)
        if d is None:
            break
        if d[1] == "call":
            callee = d[2]["func"].get("fn", {}).get("resolved") or d[2]["func"].get("fn", {}).get("path", "")
            if callee.rsplit("::", 1)[-1] in ("clone", "to_owned", "as_ref", "deref", "borrow") and d[2]["args"]:
                cur = d[2]["args"][0]
                continue
            verdict = "call:" + callee
            break
        rv = d[2]["rv"]
        if rv["k"] in ("use", "cast"):
            cur = rv["o"]
        elif rv["k"] in ("ref", "copyderef"):
            cur = {"k": "copy", "l": rv["place"]["l"], "p": rv["place"]["p"]}
        else:
            break
    if verdict == "field":
        res.ok(key, b.where(), "result type = the literal's declared return type")
    elif verdict and verdict.startswith("call:") and verdict.endswith("ReturnType>::return_type"):
        res.bad(key, "the scope entry of a function literal stores <AnonymousFunction as ReturnType>::return_type(), i.e. the type of the "
                     "function itself, as the type of its result: `f := ((x: int) -> int {..}); y := f(1)` types y as a function", b.where())
    else:
        res.broken.append("From<&AnonymousFunction> for LocalVariable: cannot tell where the result type comes from (%s)" % verdict)
    return res


# ---------------------------------------------------------------- R-CONCAT
def run_concat(ctx):
    res = RuleResult("R-CONCAT", "Type::concat (the union of two types) drops an operand only for structural reasons - `!`, `any`, equality, "
                                 "set insertion - and never by asking `matches`: absorption by subtyping is an upper bound only in one "
                                 "direction and makes the resulting type depend on the order in which members arrive")
    lib = ctx.facts.lib
    from ..owners import for_crate
    own = for_crate(lib)
    fid = "variable::r#type::Type::concat"
    b = lib.body(fid)
    if not res.anchor(b is not None, fid):
        return res
    key = "concat:no-matches"
    hits = [(hb, c) for hb in own.members(fid) for c in hb.calls if c.callee.endswith("::matches") and "variable::" in c.callee]
    inserts = [c for hb in own.members(fid) for c in hb.calls if c.callee.rsplit("::", 1)[-1] in ("insert", "extend") and "HashSet" in c.callee]
    res.anchor(bool(inserts), "Type::concat inserts into the member set")
    if hits:
        hb, c = hits[0]
        res.bad(key, "Type::concat decides what to keep by calling %s: a member dropped because something `matches` something is lost from the "
                     "union unless the test runs in exactly the right direction, and the set of members then depends on arrival order "
                     "(hash order)" % c.callee.rsplit("::", 2)[-2] + "::matches", hb.where(c.line))
    else:
        res.ok(key, b.where(), "members are only compared by equality / set insertion")
    return res


# ---------------------------------------------------------------- R-STDDELEGATE
def run_stddelegate(ctx):
    res = RuleResult("R-STDDELEGATE", "a standard-library helper that is the SimpleSL face of a std method of the same name (to_lowercase, trim, "
                                      "replace, split, contains ...) answers through that method on every path: no fast path decides what "
                                      "the answer is by a criterion of its own")
    lib = ctx.facts.lib
    n = 0
    for fid, b in sorted(lib.bodies.items()):
        if not fid.startswith("stdlib::") or "::inner::" not in fid or "{closure" in fid or "__" in fid.rsplit("::", 1)[-1]:
            continue
        name = fid.rsplit("::", 1)[-1]
        same = [c for c in b.calls if c.callee.startswith(("std::", "core::", "alloc::")) and c.callee.rsplit("::", 1)[-1] == name]
        if not same:
            continue
        n += 1
        key = "stddelegate:%s" % fid
        gates = {c.bb for c in same}
        leaks = [r for r in b.return_blocks() if r in b.reachable(0, avoid=gates)]
        if leaks:
            res.bad(key, "%s can return without calling %s: on that path the result is decided by a shortcut that need not agree with the "
                         "method docs/stdlib.md promises (e.g. Unicode titlecase letters are neither upper- nor lowercase but both case "
                         "mappings change them)" % (fid, same[0].callee), b.where(b.blocks[leaks[0]]["term"].get("line")))
        else:
            res.ok(key, b.where(), "always through %s" % same[0].callee)
    res.floor(n, 8, "delegating_helpers")
    return res


# ---------------------------------------------------------------- R-STRUCTPRINT
def run_structprint(ctx):
    res = RuleResult("R-STRUCTPRINT", "the printer of struct types writes every field: fields are never collected into a map or set keyed by "
                                      "something derived from the name (entries can collide and vanish)")
    lib = ctx.facts.lib
    from ..owners import for_crate
    own = for_crate(lib)
    fid = "<variable::struct_type::StructType as std::fmt::Display>::fmt"
    b = lib.body(fid)
    if not res.anchor(b is not None, fid):
        return res
    key = "structprint:all-fields"
    bad = []
    for hb in own.members(fid):
        for c in hb.calls:
            dt = (c.term.get("dest_ty") or "")
            last = c.callee.rsplit("::", 1)[-1]
            if (last in ("collect", "from_iter") and re.search(r"\b(BTreeMap|HashMap|BTreeSet|HashSet)\b", dt)) or \
                    (last in ("insert", "entry", "dedup", "dedup_by", "dedup_by_key", "retain") and re.search(r"(BTreeMap|HashMap|BTreeSet|HashSet|Vec)", c.callee)):
                bad.append((hb, c, dt))
    if bad:
        hb, c, dt = bad[0]
        res.bad(key, "the struct type printer passes the fields through %s (%s): two fields whose keys coincide there are printed as one, and "
                     "the text parses back to a struct type with fewer fields" % (c.callee.rsplit("::", 2)[-2] + "::" + c.callee.rsplit("::", 1)[-1], dt[:80]),
                hb.where(c.line))
    else:
        res.ok(key, b.where(), "fields are printed from the map's own iteration")
    return res


# ---------------------------------------------------------------- R-MEETOPERAND
def run_meetoperand(ctx):
    res = RuleResult("R-MEETOPERAND", "Type::conjoin answers with one of its operands unchanged only when the two operands are equal or the "
                                      "other one is `any`; in every other case the meet is built from the parts of both")
    lib = ctx.facts.lib
    from .variance import Prov, flat
    from ..model import enum_switches, arm_region, op_local
    b = lib.body(CONJOIN)
    if not res.anchor(b is not None, CONJOIN):
        return res
    p = Prov(lib, b, {1: {"S"}, 2: {"O"}})
    # whole-operand equality tests and their true targets
    eq_true = []
    for c in b.calls:
        if c.callee.endswith("std::cmp::PartialEq>::eq") or c.path == "std::cmp::PartialEq::eq" or c.callee.endswith("::eq"):
            if len(c.args) == 2 and {frozenset(flat(p.of_op(c.args[0]))), frozenset(flat(p.of_op(c.args[1])))} == {frozenset({"S"}), frozenset({"O"})}:
                sw = next((i for i, blk in enumerate(b.blocks) if blk["term"]["k"] == "switch" and op_local(blk["term"]["discr"]) == c.dest["l"]), None)
                if sw is not None:
                    eq_true.append(b.blocks[sw]["term"]["otherwise"])
    any_regions = set()
    for sw in enum_switches(b, "variable::r#type::Type"):
        if "Any" in sw["arms"]:
            any_regions |= set(arm_region(b, sw["arms"]["Any"]))
    n = 0
    bad = []
    for c in b.calls:
        if not c.callee.endswith("as std::clone::Clone>::clone") or "r#type::Type" not in c.callee:
            continue
        labs = flat(p.of_op(c.args[0]))
        if labs not in ({"S"}, {"O"}):
            continue
        # does this clone become the result?
        if c.dest["l"] != 0:
            continue
        n += 1
        ok = c.bb in any_regions or any(t == c.bb or t in b.dom[c.bb] for t in eq_true)
        if not ok:
            bad.append(c)
    key = "meetoperand:conjoin"
    if bad:
        res.bad(key, "Type::conjoin returns one of its operands unchanged on a path where the operands are neither equal nor is the other `any` "
                     "(%s): the result ignores the other operand, so it need not lie below it - e.g. the meet of two function types must "
                     "still union their parameter types" % b.where(bad[0].line), b.where(bad[0].line))
    else:
        res.ok(key, b.where(), "%d operand-returning path(s), all under `first == second` or the `any` arm" % n)
    res.floor(n, 1, "operand-returning paths in conjoin")
    # the constants conjoin may answer with: `!` (no common subtype). `any` is the meet only of (any, any), which the equality arm
    # answers with a clone; a constant `any` (or any other constant type) elsewhere widens the meet above one operand, e.g.
    # conjoin(int, any) = any makes ((int)->int | (any)->int).params() accept a string
    from ..model import aggregates
    own_bodies = [b] + list(lib.closures_of(b.id))
    consts = []
    for ob in own_bodies:
        both_any = None
        if ob is b:
            # blocks that can only be reached through the `Any` edge of a switch on S *and* the `Any` edge of a switch on O
            def only_through(edges):
                seen = {0}
                work = [0]
                while work:
                    u = work.pop()
                    for v in b.succ[u]:
                        if (u, v) in edges or v in seen:
                            continue
                        seen.add(v)
                        work.append(v)
                return set(range(len(b.blocks))) - seen
            edges = {"S": set(), "O": set()}
            for sw in enum_switches(b, "variable::r#type::Type"):
                if "Any" in sw["arms"]:
                    sd = "".join(sorted(flat(p.of_place(sw["place"]["l"], sw["place"]["p"]))))
                    if sd in edges and sw["arms"]["Any"] != sw["otherwise"] and list(sw["arms"].values()).count(sw["arms"]["Any"]) == 1:
                        edges[sd].add((sw["bb"], sw["arms"]["Any"]))
            both_any = (only_through(edges["S"]) if edges["S"] else set()) & (only_through(edges["O"]) if edges["O"] else set())
        for bb, st in aggregates(ob, "variable::r#type::Type"):
            rv = st["rv"]
            if rv.get("ops"):
                continue        # built from parts
            if rv["variant"] == "Never":
                continue
            if both_any and bb in both_any:
                continue
            consts.append((ob, bb, st))
    key = "meetoperand:conjoin|constants"
    if consts:
        ob, bb, st = consts[0]
        res.bad(key, "Type::conjoin answers with the constant type `%s` outside an arm where both operands are `any`: the meet of a type "
                     "with `any` is that type - a wider answer lets a union of function types accept arguments one member rejects"
                % st["rv"]["variant"].lower(), ob.where(st.get("line")))
    else:
        res.ok(key, b.where(), "the only constant answer is `!`")
    return res
