"""Rules added after the eighth round of independent seeded changes (changes in files no earlier change touched).

R-SHELLAPI   the command-line front end (src/main.rs) hands its interpreter to the library only through the calls the file
             runner and the documented embedding use: it never binds, reads or rewrites names itself."""
import re

from ..engine import RuleResult

SHELL_API = {
    "simplesl::Interpreter::<'a>::with_stdlib": "creates the session interpreter",
    "simplesl::Code::parse": "checks a line / file against the interpreter (shared reference)",
    "simplesl::Code::exec_unscoped": "runs a checked line in the session scope",
    "simplesl::Code::exec": "runs a checked file in its own scope",
}


def run_shellapi(ctx):
    res = RuleResult("R-SHELLAPI", "every call of the front end (bin crate) that is handed the interpreter is one of with_stdlib, Code::parse, "
                                   "Code::exec_unscoped, Code::exec: the shell adds no binding, lookup or rewrite of its own between the "
                                   "statements it feeds, so what a session holds is what the statements put there")
    bin_ = ctx.facts.bin
    if not res.anchor(bin_ is not None and bin_.body("run_shell") is not None, "run_shell in the bin crate"):
        return res
    n = 0
    for b in sorted(bin_.bodies.values(), key=lambda x: x.id):
        for c in b.calls:
            tys = list(c.term.get("arg_tys") or []) + [c.term.get("dest_ty") or ""]
            if not any("simplesl::Interpreter" in t or "simplesl::interpreter::Interpreter" in t for t in tys):
                continue
            if c.callee.startswith(("std::", "core::", "alloc::", "<std::", "<core::")) and not c.callee.startswith("<simplesl"):
                continue        # moving / dropping / wrapping the value: no access to its names
            if bin_.body(c.callee) is not None:
                continue        # a function of the front end itself: its own calls are judged where they are made
            n += 1
            key = "shellapi:%s|%s" % (b.id.split("::{closure")[0], c.callee)
            if c.callee in SHELL_API:
                res.ok(key, b.where(c.line), SHELL_API[c.callee])
            else:
                res.bad(key, "%s calls %s on the session interpreter: the shell itself reads or changes what the session holds, so feeding "
                             "statements one at a time no longer leaves the names and values the same statements leave when run as one "
                             "program" % (b.id, c.callee), b.where(c.line))
    res.floor(n, 4, "interpreter_calls")
    return res


WRITE_ON_DROP = ("std::io::BufWriter<", "std::io::LineWriter<")


def _unflushed(b):
    """locals of a write-on-drop type that can reach a return without flush / into_inner having been called"""
    out = []
    holders = [l for l in range(len(b.locals)) if b.local_ty(l).startswith(WRITE_ON_DROP)]
    if not holders:
        return None
    gates = {c.bb for c in b.calls if c.callee.rsplit("::", 1)[-1] in ("flush", "into_inner", "into_parts")
             and any(t.lstrip("&").replace("mut ", "").startswith(WRITE_ON_DROP) for t in (c.term.get("arg_tys") or [])[:1])}
    births = [c.bb for c in b.calls if (c.term.get("dest_ty") or "").startswith(WRITE_ON_DROP)]
    for bb0 in births:
        reach = b.reachable(bb0, avoid=gates)
        leaks = [r for r in b.return_blocks() if r in reach]
        # a path that ends in an error value may drop the writer: the error it reports is the one that matters
        from .guard import success_blocks
        succ = set(success_blocks(b) or b.return_blocks())
        bad = [s for s in succ if s in reach]
        if bad:
            out.append(bb0)
    return out


def run_dropwrite(ctx):
    res = RuleResult("R-DROPWRITE", "a buffered writer (BufWriter / LineWriter: writes what is left when dropped and discards the error) is "
                                    "flushed or unwrapped before every success value of the function that creates it - otherwise an I/O "
                                    "failure is reported as success")
    lib = ctx.facts.lib
    n = 0
    for b in sorted(lib.bodies.values(), key=lambda x: x.id):
        r = _unflushed(b)
        if r is None:
            continue
        n += 1
        key = "dropwrite:%s" % b.id
        if r:
            res.bad(key, "%s creates a buffered writer and can return success without flush(): the bytes still buffered are written in "
                         "Drop, where an error (disk full, I/O error) is discarded - the caller sees () instead of the error value" % b.id,
                    b.where(b.blocks[r[0]]["term"].get("line")))
        else:
            res.ok(key, b.where(), "flushed on every success path")
    res.stats["functions_with_buffered_writers"] = n
    fx = ctx.fixtures
    p, q = fx.body("errflow::buffered_never_flushed"), fx.body("errflow::buffered_flushed")
    res.control(p is not None and bool(_unflushed(p)), "errflow::buffered_never_flushed is reported")
    res.control(q is not None and _unflushed(q) == [], "negative control errflow::buffered_flushed accepted")
    return res


NEW_REPEAT = "variable::array::Array::new_repeat"


def _from_param(b, o, param, depth=0):
    """operand is parameter `param` moved / copied unchanged"""
    if depth > 6 or not isinstance(o, dict) or o.get("k") not in ("copy", "move") or o.get("p"):
        return False
    if o["l"] == param:
        return True
    ds = b.def_sites(o["l"])
    if len(ds) != 1 or ds[0][1] != "assign":
        return False
    rv = ds[0][2]["rv"]
    return rv["k"] == "use" and _from_param(b, rv["o"], param, depth + 1)


def _builds_on_success(lib, fid, depth):
    """a private helper of array_repeat that passes through Array::new_repeat on every path to a success value"""
    hb = lib.body(fid)
    if hb is None or depth > 2 or not fid.startswith("instruction::array_repeat::") or "{closure" in fid:
        return False
    from .guard import success_blocks
    from ..model import aggregates
    if any(c.callee.endswith(("Array::new_with_type", "Array::new", "Array::from")) for c in hb.calls) or list(aggregates(hb, "variable::array::Array")):
        return False
    g = {c.bb for c in hb.calls if c.callee == NEW_REPEAT or (c.callee != fid and _builds_on_success(lib, c.callee, depth + 1))}
    if not g:
        return False
    reach = hb.reachable(0, avoid=g)
    return not any(s in reach for s in (success_blocks(hb) or hb.return_blocks()))


def run_repeat(ctx):
    res = RuleResult("R-REPEAT", "`[v; n]` is built - when run and when folded - by Array::new_repeat, and new_repeat hands its value and "
                                 "its length unchanged to std::iter::repeat_n (or vec![v; n]) and collects the result as it comes: exactly "
                                 "n elements, each equal to v, element type = type of v")
    lib = ctx.facts.lib
    from .guard import success_blocks
    from ..model import aggregates
    k = lib.body(NEW_REPEAT)
    if not res.anchor(k is not None, NEW_REPEAT):
        return res
    # the kernel
    rep = [c for c in k.calls if c.callee in ("std::iter::repeat_n", "alloc::vec::from_elem", "std::vec::from_elem")]
    others = [c.callee for c in k.calls if c.callee.rsplit("::", 1)[-1] in
              ("chain", "take", "skip", "saturating_sub", "checked_sub", "wrapping_sub", "once", "repeat", "extend", "push", "filter", "step_by")]
    key = "repeat:kernel"
    if len(rep) == 1 and len(rep[0].args) == 2 and _from_param(k, rep[0].args[0], 1) and _from_param(k, rep[0].args[1], 2) and not others \
            and not any(s["rv"]["k"] in ("binop", "checked_binop") for _, s in k.assigns()):
        res.ok(key, k.where(), "repeat_n(value, len) collected unchanged")
    else:
        res.bad(key, "Array::new_repeat no longer hands (value, len) unchanged to one repeat_n / vec! and collects it: the number of "
                     "elements of `[v; n]` is not n for some n (%s)" % (", ".join(sorted(set(others))) or "length or value recomputed"), k.where())
    # its users
    for fid, mode in (("<instruction::array_repeat::ArrayRepeat as instruction::Exec>::exec", "all-paths"),
                      ("instruction::array_repeat::ArrayRepeat::create_from_instructions", "no-other")):
        b = lib.body(fid)
        if not res.anchor(b is not None, fid):
            continue
        key = "repeat:%s" % fid
        other = [c.callee for c in b.calls if c.callee.endswith(("Array::new_with_type", "Array::new", "Array::from"))] + \
                ["variable::Array{..}" for _ in aggregates(b, "variable::array::Array")]
        gates = {c.bb for c in b.calls if c.callee == NEW_REPEAT or _builds_on_success(lib, c.callee, 0)}
        succ = success_blocks(b) or b.return_blocks()
        if other:
            res.bad(key, "%s builds the repeated array itself (%s) instead of through Array::new_repeat" % (fid, other[0]), b.where())
        elif mode == "all-paths" and (not gates or any(s in b.reachable(0, avoid=gates) for s in succ)):
            res.bad(key, "%s can produce a value without Array::new_repeat" % fid, b.where())
        elif not gates:
            res.bad(key, "%s no longer folds through Array::new_repeat" % fid, b.where())
        else:
            res.ok(key, b.where(), "through Array::new_repeat")
    return res
