"""R-TYPEPRINT (property C15, structural part): what the printer of types writes is what the grammar reads back as the same
kind of type.

The printing code (`Display` of Type, FunctionType, MultiType, StructType - derive_more expansions) is read from the MIR
as a small printing grammar: per variant the format template, what each placeholder prints (a nested type, a joined list
with its separator) and under which test (`is it a union?`, `is it !?`) which alternative is used. Every alternative is
instantiated with sample sub-types that satisfy its test - including unions, functions and cells in every nested
position - and the resulting text is parsed with the repository's grammar (tools/ssl-grammar, the pest interpreter).
Required: the whole text is one `type`, its top rule is the rule that `Type::from(pair)` maps to the printed variant,
and each nested sample comes back as one direct child of its own rule (so a nested union stays one operand: the
parenthesisation clause of C15). No SimpleSL program and no printer code is executed.

Not decided: the round trip for all types (value level), the order of union members / struct fields, identifiers."""
import os
import re

from ..engine import RuleResult
from ..model import enum_switches, arm_region, op_local
from .. import snippets, extract
from .export import single_def

TYPE = "variable::r#type::Type"
DISPLAY = "<%s as std::fmt::Display>::fmt"
SAMPLES = {"plain": "int", "multi": "int|float", "never": "!", "function": "()->int", "function_multi": "()->(int|float)",
           "mut": "mut int", "array": "[int]", "tuple": "(int, float)", "void": "()", "any": "any",
           "function_uparam": "(int|float)->int", "function_fn_result": "()->(int|float)->int", "mut_multi": "mut (int|float)",
           "function_params": "(int, float)->int"}
TOP_RULE = {"plain": "int_type", "multi": "multi", "never": "never", "function": "function_type", "function_multi": "function_type",
            "mut": "mut_type", "array": "array_type", "tuple": "tuple_type", "void": "void", "any": "any",
            "function_uparam": "function_type", "function_fn_result": "function_type", "mut_multi": "mut_type", "function_params": "function_type"}


class Undecided(Exception):
    pass


# ---------------------------------------------------------------- reading the printer
def src_of(b, o, depth=0):
    """path (tuple of field / variant names) of the place an operand refers to, rooted at `self`; None if not rooted there"""
    if depth > 12 or not isinstance(o, dict):
        return None
    if o.get("k") == "const":
        return None
    l = o.get("l")
    proj = tuple(e.get("name") or e.get("variant") for e in o.get("p", []) if e["k"] in ("field", "downcast"))
    proj = tuple(p for p in proj if p)
    if l == 1:
        return proj
    d = single_def(b, l)
    if d is None:
        return None
    if d[1] == "assign":
        rv = d[2]["rv"]
        if rv["k"] in ("ref", "copyderef", "discr"):
            base = src_of(b, {"k": "copy", "l": rv["place"]["l"], "p": rv["place"]["p"]}, depth + 1)
            return None if base is None else base + proj
        if rv["k"] in ("use", "cast"):
            base = src_of(b, rv["o"], depth + 1)
            return None if base is None else base + proj
        return None
    last = d[2]["func"].get("fn", {}).get("path", "").rsplit("::", 1)[-1]
    if last in ("as_ref", "deref", "borrow", "clone", "iter", "into_iter") and d[2]["args"]:
        base = src_of(b, d[2]["args"][0], depth + 1)
        return None if base is None else base + proj
    return None


def const_str(b, o, depth=0):
    if depth > 8 or not isinstance(o, dict):
        return None
    if o.get("k") == "const":
        if o.get("ty") == "&str":
            return snippets.rust_str_unescape(o["val"])
        return None
    d = single_def(b, o.get("l", -1))
    if d is None or d[1] != "assign":
        return None
    rv = d[2]["rv"]
    if rv["k"] in ("use", "cast"):
        return const_str(b, rv["o"], depth + 1)
    if rv["k"] in ("ref", "copyderef"):
        return const_str(b, {"k": "copy", "l": rv["place"]["l"], "p": []}, depth + 1)
    return None


def is_never_const(b, o, depth=0):
    """operand is (a reference to) the constant Type::Never"""
    if depth > 8 or not isinstance(o, dict):
        return False
    if o.get("k") == "const":
        if "promoted" in o:
            try:
                pb = b.raw["promoted"][int(o["promoted"])]
            except (KeyError, IndexError, ValueError):
                return False
            return any(st["k"] == "assign" and st["rv"]["k"] == "agg" and st["rv"].get("adt") == TYPE and st["rv"].get("variant") == "Never"
                       for blk in pb["blocks"] for st in blk["stmts"])
        return "Never" in str(o.get("val"))
    d = single_def(b, o.get("l", -1))
    if d is None or d[1] != "assign":
        return False
    rv = d[2]["rv"]
    if rv["k"] == "agg":
        return rv.get("adt") == TYPE and rv.get("variant") == "Never"
    if rv["k"] in ("use", "cast"):
        return is_never_const(b, rv["o"], depth + 1)
    if rv["k"] in ("ref", "copyderef"):
        return is_never_const(b, {"k": "copy", "l": rv["place"]["l"], "p": []}, depth + 1)
    return False


def conds_of(b, bb):
    """tests that decide whether block bb runs: {('multi'|'never', source path, truth)}"""
    out = set()
    for D in b.dom[bb]:
        t = b.blocks[D]["term"]
        if t["k"] != "switch" or D == bb:
            continue
        succs = [(v, tg) for v, tg in t["targets"]] + [("otherwise", t["otherwise"])]
        mine = [(v, tg) for v, tg in succs if bb == tg or bb in arm_region(b, tg)]
        if len(mine) != 1:
            continue
        val = mine[0][0]
        dl = op_local(t["discr"])
        # discriminant of a Type place?
        tag = None
        for st in b.blocks[D]["stmts"]:
            if st["k"] == "assign" and st["place"]["l"] == dl and st["rv"]["k"] == "discr" and st["rv"].get("enum") == TYPE:
                variants = st["rv"].get("variants") or {}
                src = src_of(b, {"k": "copy", "l": st["rv"]["place"]["l"], "p": st["rv"]["place"]["p"]})
                multi_vals = [v for v, n in variants.items() if n == "Multi"]
                if src and multi_vals and any(v == multi_vals[0] for v, _ in t["targets"]):
                    tag = ("multi", src, val == multi_vals[0])
        if tag is None:
            d = single_def(b, dl) if dl is not None else None
            if d and d[1] == "call" and d[2]["func"].get("fn", {}).get("path", "").endswith("Type::matches") and len(d[2]["args"]) == 2 \
                    and is_never_const(b, d[2]["args"][1]):
                src = src_of(b, d[2]["args"][0])
                if src:
                    tag = ("never", src, val != "0")
        if tag:
            out.add(tag)
    return frozenset(out)


def sval(b, l, depth=0):
    """alternatives [(conds, pieces)] of the String / &str held by local l"""
    if depth > 12:
        raise Undecided("string expression too deep")
    alts = []
    for bb, kind, obj in b.def_sites(l):
        conds = conds_of(b, bb)
        if kind == "assign":
            rv = obj["rv"]
            if rv["k"] in ("use", "cast"):
                cs = const_str(b, rv["o"])
                if cs is not None:
                    alts.append((conds, [cs]))
                    continue
                sub = op_local(rv["o"])
                if sub is None:
                    raise Undecided("unreadable string operand")
                for c2, p2 in sval(b, sub, depth + 1):
                    alts.append((conds | c2, p2))
                continue
            if rv["k"] in ("ref", "copyderef"):
                for c2, p2 in sval(b, rv["place"]["l"], depth + 1):
                    alts.append((conds | c2, p2))
                continue
            raise Undecided("string built by %s" % rv["k"])
        fn = obj["func"].get("fn", {})
        callee = fn.get("resolved") or fn.get("path", "")
        last = callee.rsplit("::", 1)[-1]
        args = obj.get("args", [])
        if last in ("must_use", "into", "to_owned", "clone", "as_str", "deref", "as_ref", "borrow", "from", "to_string") and args:
            cs = const_str(b, args[0])
            if cs is not None:
                alts.append((conds, [cs]))
                continue
            src = src_of(b, args[0])
            if src is not None and last == "to_string":
                alts.append((conds, [("sub", src)]))
                continue
            sub = op_local(args[0])
            if sub is None:
                raise Undecided("unreadable argument of %s" % last)
            for c2, p2 in sval(b, sub, depth + 1):
                alts.append((conds | c2, p2))
        elif callee in ("std::fmt::format", "alloc::fmt::format"):
            for c2, p2 in aval(b, op_local(args[0]), depth + 1):
                alts.append((conds | c2, p2))
        elif last == "join" and len(args) == 2:
            src = src_of(b, args[0])
            sep = const_str(b, args[1])
            if src is None or sep is None:
                raise Undecided("join of something that is not a field with a literal separator")
            alts.append((conds, [("join", src, sep)]))
        else:
            raise Undecided("string produced by %s" % callee)
    if not alts:
        raise Undecided("no definition of a printed string")
    return alts


def string_local(b, o, depth=0):
    """the local that holds the printed String behind references, moves and `match (&a, &b)` tuples (or a source path)"""
    if depth > 12 or not isinstance(o, dict) or o.get("k") not in ("copy", "move"):
        return None
    l = o["l"]
    proj = [e for e in o.get("p", []) if e["k"] != "deref"]
    ds = b.def_sites(l)
    if len(ds) == 1 and ds[0][1] == "assign":
        rv = ds[0][2]["rv"]
        if rv["k"] == "agg" and rv.get("agg") == "tuple" and proj and proj[0]["k"] == "field":
            return string_local(b, rv["ops"][proj[0]["i"]], depth + 1)
        if rv["k"] in ("ref", "copyderef") and not proj:
            pl = rv["place"]
            src = src_of(b, {"k": "copy", "l": pl["l"], "p": pl["p"]})
            if src is not None:
                return src
            return string_local(b, {"k": "copy", "l": pl["l"], "p": pl["p"]}, depth + 1)
        if rv["k"] in ("use", "cast") and not proj:
            src = src_of(b, rv["o"])
            if src is not None:
                return src
            return string_local(b, rv["o"], depth + 1)
    if not proj:
        return l
    return None


def aval(b, l, depth=0):
    """alternatives of the text a fmt::Arguments local prints"""
    d = single_def(b, l) if l is not None else None
    if d is None or d[1] != "call":
        raise Undecided("format arguments not built by a single call")
    callee = d[2]["func"].get("fn", {}).get("path", "")
    args = d[2]["args"]
    if callee.endswith("Arguments::<'a>::from_str"):
        cs = const_str(b, args[0])
        if cs is None:
            raise Undecided("from_str of a non-literal")
        return [(frozenset(), [cs])]
    if not callee.endswith("Arguments::<'a>::new"):
        raise Undecided("format arguments built by %s" % callee)
    raw = None
    for a in args:
        raw = raw or snippets._bytes_const(b, a, 0)
    if raw is None:
        raise Undecided("format template not constant")
    pieces = snippets.decode_fmt_template(raw)
    # the argument array
    arr = None
    for a in args:
        cur = op_local(a)
        for _ in range(6):
            dd = single_def(b, cur) if cur is not None else None
            if dd is None or dd[1] != "assign":
                break
            rv = dd[2]["rv"]
            if rv["k"] == "agg" and rv.get("agg") == "array":
                arr = rv["ops"]
                break
            cur = op_local(rv["o"]) if rv["k"] in ("use", "cast") else rv["place"]["l"] if rv["k"] in ("ref", "copyderef") else None
        if arr is not None:
            break
    argalts = []
    for o in (arr or []):
        dd = single_def(b, op_local(o))
        if dd is None or dd[1] != "call" or not dd[2]["func"].get("fn", {}).get("path", "").endswith("new_display"):
            raise Undecided("format argument that is not Display")
        x = dd[2]["args"][0]
        src = src_of(b, x)
        if src is not None:
            argalts.append([(frozenset(), [("sub", src)])])
            continue
        xl = string_local(b, x)
        if isinstance(xl, tuple):
            argalts.append([(frozenset(), [("sub", xl)])])
        elif xl is None:
            raise Undecided("format argument cannot be traced")
        else:
            argalts.append(sval(b, xl, depth + 1))
    outs = [(frozenset(), [])]
    for p in pieces:
        if isinstance(p, str):
            outs = [(c, ps + [p]) for c, ps in outs]
        else:
            if p >= len(argalts):
                raise Undecided("placeholder without argument")
            outs = [(c | c2, ps + p2) for c, ps in outs for c2, p2 in argalts[p]]
    return outs


def arm_alternatives(b, region):
    """alternatives printed by the code of one arm: the Arguments given to write_fmt / a delegated Display::fmt"""
    region = set(region)
    for c in b.calls:
        if c.bb not in region:
            continue
        if c.path.endswith("Formatter::<'a>::write_fmt"):
            return aval(b, op_local(c.args[1]))
        if c.callee in ("<std::string::String as std::fmt::Display>::fmt", "<str as std::fmt::Display>::fmt") and c.dest["l"] == 0:
            xl = string_local(b, c.args[0])
            if isinstance(xl, int):
                return sval(b, xl)
            raise Undecided("printed string cannot be traced")
        if c.callee.endswith(" as std::fmt::Display>::fmt") and c.dest["l"] == 0:
            return [(frozenset(), [("delegate", c.callee)])]
    raise Undecided("arm prints nothing recognisable")


# ---------------------------------------------------------------- reading Type::from(pair)
def rule_of_variant(lib):
    """{Type variant: grammar rule} from `impl From<Pair<Rule>> for Type`"""
    b = None
    for x in lib.bodies.values():
        if x.id.startswith("<variable::r#type::Type as std::convert::From<pest::iterators::Pair") and x.name == "from":
            b = x
    if b is None:
        raise Undecided("Type::from(Pair) not found")
    out = {}
    for sw in enum_switches(b, "simplesl_parser::Rule"):
        for rule, tgt in sw["arms"].items():
            region = set(arm_region(b, tgt))
            vs = set()
            for blk_i in region:
                for st in b.blocks[blk_i]["stmts"]:
                    if st["k"] == "assign" and st["rv"]["k"] == "agg" and st["rv"].get("adt") == TYPE:
                        vs.add(st["rv"]["variant"])
            for c in b.calls:
                if c.bb in region:
                    if "FunctionType as std::convert::From" in c.callee:
                        vs.add("Function")
                    if "StructType as std::convert::From" in c.callee:
                        vs.add("Struct")
                    if c.callee.endswith("Type::concat") or any(x[1].endswith("Type::concat") for x in b.fn_operands() if x[0] in region):
                        vs.add("Multi")
            vs.discard("Never") if rule not in ("never",) and len(vs) > 1 else None
            if len(vs) == 1:
                out[next(iter(vs))] = rule
    return out


# ---------------------------------------------------------------- instantiate + parse
def kinds_for(conds, src):
    """sample kinds a nested type at `src` may take under the alternative's tests"""
    c = {(k, s): v for k, s, v in conds}
    if c.get(("multi", src)) is True:
        return ["multi"]
    if c.get(("never", src)) is True:
        return ["never"]
    ks = ["plain", "function", "function_multi", "function_uparam", "function_fn_result", "function_params", "mut", "mut_multi", "array", "tuple",
          "void", "any"]
    if ("multi", src) not in c:
        ks.append("multi")
    if ("never", src) not in c:
        ks.append("never")
    return ks


def instances(alts):
    """(text, [(kind, start, end)]) for every alternative and every admissible sample kind in every nested position"""
    out = []
    for conds, pieces in alts:
        subs = [p for p in pieces if isinstance(p, tuple)]
        if any(p[0] == "delegate" for p in subs):
            continue
        slots = []
        for p in subs:
            if p[0] == "sub":
                slots.append([[k] for k in kinds_for(conds, p[1])])
            else:
                # joined list: lengths 0, 1, 2 with each kind in the last position
                slots.append([[], ["plain"]] + [["plain", k] for k in kinds_for(conds, None)] + [["plain", "plain", "plain"]])
        # vary one slot at a time, others plain
        base = [(s[0] if s and s[0] else ["plain"]) if subs[i][0] == "sub" else ["plain", "plain"] for i, s in enumerate(slots)]
        combos = []
        for i, s in enumerate(slots):
            for choice in s:
                cur = [list(x) for x in base]
                cur[i] = list(choice)
                combos.append(cur)
        if not slots:
            combos = [[]]
        for combo in combos:
            text = ""
            marks = []
            lists = []
            si = 0
            for p in pieces:
                if isinstance(p, str):
                    text += p
                    continue
                kinds = combo[si]
                si += 1
                if p[0] == "sub":
                    k = kinds[0] if kinds else "plain"
                    marks.append((k, len(text), len(text) + len(SAMPLES[k])))
                    text += SAMPLES[k]
                else:
                    lists.append((p[1], len(kinds)))
                    for j, k in enumerate(kinds):
                        if j:
                            text += p[2]
                        marks.append((k, len(text), len(text) + len(SAMPLES[k])))
                        text += SAMPLES[k]
            out.append((conds, text, marks, lists))
    return out


def parse_types(texts, grammar_path):
    sn = [{"static": None, "body": "t", "text": t, "holes": 0, "line": 0, "file": ""} for t in texts]
    snippets.parse_all(sn, grammar_path, rule="type")
    return sn


def run(ctx):
    res = RuleResult("R-TYPEPRINT", "every alternative of the type printer, instantiated with sample sub-types in every nested position, is "
                                    "read back by the grammar as one type of the printed kind with each nested sample as one operand")
    lib = ctx.facts.lib
    gpath = os.path.join(extract.REPO, "parser/src/simplesl.pest")
    try:
        r_of_v = rule_of_variant(lib)
    except Undecided as e:
        res.broken.append(str(e))
        return res
    res.floor(len(r_of_v), 12, "variants_mapped_by_Type::from")
    tb = lib.body(DISPLAY % TYPE)
    if not res.anchor(tb is not None, DISPLAY % TYPE):
        return res
    printers = {}       # variant -> (body, alternatives)
    sws = [sw for sw in enum_switches(tb, TYPE) if sw["bb"] == 0 or len(sw["arms"]) > 6]
    if not res.anchor(bool(sws), "match on the variant in Type's Display"):
        return res
    try:
        for v, tgt in sws[0]["arms"].items():
            alts = arm_alternatives(tb, arm_region(tb, tgt))
            if len(alts) == 1 and alts[0][1] and isinstance(alts[0][1][0], tuple) and alts[0][1][0][0] == "delegate":
                callee = alts[0][1][0][1]
                inner = callee
                if "Arc<T, A> as std::fmt::Display" in callee:
                    inner = DISPLAY % "variable::function_type::FunctionType"
                ib = lib.body(inner)
                if ib is None:
                    raise Undecided("delegated printer %s not found" % inner)
                if "StructType" in inner:
                    printers[v] = (ib, None)
                    continue
                alts = arm_alternatives(ib, range(len(ib.blocks)))
                printers[v] = (ib, alts)
            else:
                printers[v] = (tb, alts)
    except Undecided as e:
        res.broken.append("type printer not readable: %s" % e)
        return res
    jobs = []
    for v, (b, alts) in sorted(printers.items()):
        if alts is None:
            continue
        for conds, text, marks, lists in instances(alts):
            jobs.append((v, b, conds, text, marks, lists))
    parsed = parse_types([j[3] for j in jobs], gpath)
    n = 0
    seen_bad = set()
    # how short may a printed list be? as short as the grammar rule that holds the list allows (a tuple type has two or
    # more members, a parameter list may be empty): read from the child automaton of the rule around a two-element list
    from ..grammar import Grammar
    g = Grammar(ctx.facts.grammar)
    min_len = {}
    for (v, b, conds, text, marks, lists), sn in zip(jobs, parsed):
        if len(lists) == 1 and lists[0][1] == 2 and "tree" in sn and sn["tree"] and all(k == "plain" for k, _, _ in marks):
            first = [m for m in marks][0]

            def holder(p):
                if any(c["s"] == first[1] and c["e"] == first[2] for c in p["c"]):
                    return p
                for c in p["c"]:
                    h = holder(c)
                    if h:
                        return h
                return None
            h = holder(sn["tree"][0])
            if h is not None:
                others = sum(1 for c in h["c"] if not any(c["s"] == m[1] and c["e"] == m[2] for m in marks))
                mc = g.min_children(h["r"])
                if mc is not None:
                    min_len[(v, lists[0][0])] = max(0, mc - others)
    for (v, b, conds, text, marks, lists), sn in zip(jobs, parsed):
        if any(ln < min_len.get((v, src), 2) for src, ln in lists):
            continue
        n += 1
        key = "typeprint:%s" % v
        want = r_of_v.get(v)
        if v == "Multi":
            want = "multi" if len(marks) > 1 else (TOP_RULE[marks[0][0]] if marks else None)
        problem = None
        if "tree" not in sn or not sn["tree"]:
            problem = "is not read back as a type at all"
        else:
            top = sn["tree"][0]
            if top["s"] != 0 or top["e"] != len(text):
                problem = "is read back only in part (`%s`): the rest is a different operand" % text[top["s"]:top["e"]]
            elif want and top["r"] != want:
                problem = "is read back as %s, not as %s" % (top["r"], want)
            else:
                for k, s, e in marks:
                    if v == "Multi" and k == "multi":
                        continue        # a union inside a union is flattened by design
                    kids = [c for c in top["c"] if c["s"] == s and c["e"] == e]
                    if len(marks) == 1 and v == "Multi":
                        kids = [top] if (top["s"], top["e"]) == (s, e) else kids
                    inner_ok = any(c["r"] == TOP_RULE[k] for c in kids) or any(
                        g["r"] == TOP_RULE[k] and g["s"] == s and g["e"] == e for c in top["c"] for g in c["c"])
                    if not inner_ok:
                        problem = "does not keep the nested %s `%s` as one operand" % (k, SAMPLES[k])
                        break
        if problem:
            if (v, problem) not in seen_bad:
                seen_bad.add((v, problem))
                res.bad("%s|%s" % (key, re.sub(r"`.*?`", "", problem)[:40]), "Type::%s prints `%s`, which %s" % (v, text, problem), b.where())
        else:
            res.ok("%s|%s" % (key, text), b.where(), "reads back as %s" % (want or "its member"))
    res.stats["printed_samples"] = n
    res.floor(n, 60, "printed_samples")
    for v in ("Bool", "Int", "Float", "String", "Void", "Any", "Never", "Array", "Tuple", "Mut", "Function", "Multi"):
        res.anchor(v in printers, "printer of Type::%s" % v)
    return res


# ---------------------------------------------------------------- R-TYPETEXT
TYPEY = ("variable::r#type::Type", "variable::multi_type::MultiType", "variable::function_type::FunctionType",
         "variable::struct_type::StructType", "std::sync::Arc<variable::r#type::Type>")
# the printers of types themselves (judged by R-TYPEPRINT) and two renderings of VALUES whose text is not a type
TYPE_PRINTERS = ("<variable::r#type::Type as std::fmt::Display>::fmt", "<variable::function_type::FunctionType as std::fmt::Display>::fmt",
                 "<variable::multi_type::MultiType as std::fmt::Display>::fmt", "<variable::struct_type::StructType as std::fmt::Display>::fmt",
                 "<function::param::Param as std::fmt::Display>::fmt")
VALUE_RENDERINGS = {
    "variable::r#mut::Mut::string": "a cell VALUE `mut T v`: the grammar of that literal reads a whole type after `mut`",
    "<function::Function as std::fmt::Display>::fmt": "a function VALUE `(x: T)->R`, not the type of one",
}


def _templates(lib, typey):
    """(body, line, pieces, [type of each argument]) for every format template of the crate"""
    for b in lib.bodies.values():
        for c in b.calls:
            if not c.callee.endswith("Arguments::<'a>::new"):
                continue
            raw = None
            for a in c.args:
                raw = raw or snippets._bytes_const(b, a, 0)
            if raw is None:
                continue
            arr = None
            for a in c.args:
                cur = op_local(a)
                for _ in range(6):
                    dd = single_def(b, cur) if cur is not None else None
                    if dd is None or dd[1] != "assign":
                        break
                    rv = dd[2]["rv"]
                    if rv["k"] == "agg" and rv.get("agg") == "array":
                        arr = rv["ops"]
                        break
                    cur = op_local(rv["o"]) if rv["k"] in ("use", "cast") else rv["place"]["l"] if rv["k"] in ("ref", "copyderef") else None
                if arr is not None:
                    break
            tys = []
            for o in (arr or []):
                dd = single_def(b, op_local(o)) if op_local(o) is not None else None
                t = (dd[2].get("arg_tys") or ["?"])[0] if dd and dd[1] == "call" else "?"
                tys.append(re.sub(r"'[a-z_0-9]+ ", "", t).lstrip("&"))
            yield b, c.line, snippets.decode_fmt_template(raw), tys


def _hazards(pieces, tys, typey):
    out = []
    n = 0
    for i, p in enumerate(pieces):
        if not isinstance(p, int) or p >= len(tys) or not tys[p].startswith(typey):
            continue
        n += 1
        prev = pieces[i - 1] if i > 0 and isinstance(pieces[i - 1], str) else ""
        nxt = pieces[i + 1] if i + 1 < len(pieces) and isinstance(pieces[i + 1], str) else ""
        if re.search(r"(^|[^A-Za-z0-9_])mut\s*$", prev):
            out.append("`mut` directly before the type: a union content `mut a|b` reads as `(mut a)|b`")
        elif re.search(r"->\s*$", prev):
            out.append("`->` directly before the type: a union result `()->a|b` reads as `(()->a)|b`")
        elif re.match(r"\s*(\||->)", nxt):
            out.append("`%s` directly after the type: it is read as part of a function result / union" % nxt.strip()[:2])
    return n, out


def run_typetext(ctx):
    res = RuleResult("R-TYPETEXT", "text written around a printed type (error messages, generated programs) never continues the type's own "
                                   "syntax: outside the type printers no format template puts a type directly after `mut` / `->` or directly "
                                   "before `|` / `->` - the parenthesisation the printer applies inside a type would be missing there")
    lib = ctx.facts.lib
    n = 0
    for b, line, pieces, tys in _templates(lib, TYPEY):
        k, hz = _hazards(pieces, tys, TYPEY)
        if not k:
            continue
        n += k
        if b.id in TYPE_PRINTERS or b.id.split("::{closure")[0] in TYPE_PRINTERS:
            continue
        text = "".join(p if isinstance(p, str) else "{}" for p in pieces)
        key = "typetext:%s|%s" % (b.id, text[:60])
        if hz and b.id in VALUE_RENDERINGS:
            res.ok(key, b.where(line), "reviewed: " + VALUE_RENDERINGS[b.id])
        elif hz:
            res.bad(key, "%s prints a type inside the text %r: %s" % (b.id, text[:80], hz[0]), b.where(line))
        else:
            res.ok(key, b.where(line), "type stands alone in %r" % text[:50])
    res.floor(n, 25, "type_placeholders")
    fx = ctx.fixtures
    pos = neg = None
    for b, line, pieces, tys in _templates(fx, ("typetext::Ty",)):
        if b.id == "typetext::cell_of":
            pos = bool(_hazards(pieces, tys, ("typetext::Ty",))[1])
        if b.id == "typetext::prose":
            k, hz = _hazards(pieces, tys, ("typetext::Ty",))
            neg = k == 1 and not hz
    res.control(bool(pos), "typetext::cell_of (`mut {t}`) is reported")
    res.control(bool(neg), "negative control typetext::prose accepted")
    return res
