"""R-SCOPE: who may run a function body in a *given* scope.

Function::exec(&self, &mut Interpreter) executes the body directly in the interpreter it is handed (no layer of its own):
every declaration the body makes lands in that scope. Only Function::exec_with_args (fresh interpreter holding self +
params) and the FunctionCall arm of UnaryOperation::exec (the create_call harness, which runs inside its own Block layer)
may call it. Everything else must go through exec_with_args."""
from ..engine import RuleResult

FN_EXEC = "function::Function::exec"
EXEC_WITH_ARGS = "function::Function::exec_with_args"
PERMITTED = {
    EXEC_WITH_ARGS: "fresh Interpreter::without_stdlib() holding only self + params",
    "<instruction::unary_operation::UnaryOperation as instruction::Exec>::exec":
        "UnaryOperator::FunctionCall: host-call harness built by create_from_variables, wrapped in a Block layer",
}
WITHOUT_STDLIB = "interpreter::Interpreter::<'a>::without_stdlib"
INSERT = "interpreter::Interpreter::<'a>::insert"


def run(ctx):
    res = RuleResult("R-SCOPE", "Function::exec (runs a body in the caller-supplied scope) is called only by exec_with_args "
                                "and the host-call harness; exec_with_args builds a fresh interpreter")
    lib = ctx.facts.lib
    if not res.anchor(lib.body(FN_EXEC) is not None, FN_EXEC):
        return res
    from ..owners import for_crate
    own = for_crate(lib)
    callers = sorted(lib.callers.get(FN_EXEC, ()))
    caller_owners = set()
    for c in callers:
        key = "caller:" + c
        b = lib.body(c)
        where = b.where([x.line for x in b.calls if x.callee == FN_EXEC][0]) if b and any(x.callee == FN_EXEC for x in b.calls) else ""
        os_ = own.of(c)
        caller_owners |= set(os_)
        if os_ and all(o in PERMITTED for o in os_):
            res.ok(key, where, "; ".join(PERMITTED[o] for o in os_))
        else:
            res.bad(key, "%s calls Function::exec with its own interpreter: whatever the callee declares (`x := ..`) is written "
                         "into the caller's scope, and the callee cannot see its own name; use exec_with_args" % c, where)
    for p in PERMITTED:
        res.anchor(p in caller_owners, "%s calls Function::exec" % p)
    # exec_with_args: fresh interpreter, inserts, then exec on that same local
    b = lib.body(EXEC_WITH_ARGS)
    if res.anchor(b is not None, EXEC_WITH_ARGS):
        fresh = [c for c in b.calls if c.callee == WITHOUT_STDLIB]
        ex = [c for c in b.calls if c.callee == FN_EXEC]
        if len(fresh) == 1 and len(ex) == 1:
            il = fresh[0].dest["l"]
            # the &mut passed to exec is a borrow of that local
            arg = ex[0].args[1]
            ok = False
            for d in b.def_sites(arg.get("l", -1)):
                if d[1] == "assign" and d[2]["rv"]["k"] == "ref":
                    pl = d[2]["rv"]["place"]
                    if pl["l"] == il and not pl["p"]:
                        ok = True
                    else:
                        # reborrow of a reference to it
                        for d2 in b.def_sites(pl["l"]):
                            if d2[1] == "assign" and d2[2]["rv"]["k"] == "ref" and d2[2]["rv"]["place"]["l"] == il:
                                ok = True
            if ok and b.dominates(fresh[0].bb, ex[0].bb):
                res.ok("fresh:" + EXEC_WITH_ARGS, b.where(), "body runs in the interpreter created by without_stdlib()")
            else:
                res.bad("fresh:" + EXEC_WITH_ARGS, "exec_with_args no longer runs the body in the fresh interpreter it creates", b.where())
        else:
            res.bad("fresh:" + EXEC_WITH_ARGS, "exec_with_args must create exactly one fresh interpreter and run the body once "
                                               "(found %d / %d)" % (len(fresh), len(ex)), b.where())
        ins = [c for hb in own.cluster(EXEC_WITH_ARGS) for c in hb.calls if c.callee == INSERT]
        if len(ins) == 2:
            res.ok("binds:" + EXEC_WITH_ARGS, b.where(), "two insert sites: own name, parameters")
        else:
            res.bad("binds:" + EXEC_WITH_ARGS, "exec_with_args has %d Interpreter::insert sites; expected exactly the function's own "
                                               "name and its parameters" % len(ins), b.where())
    return res
