"""R-QUERYGUARD: every Type query that a result type unwraps is established by the operand check of the same construct
*by asking that query* (or a structural predicate) - not merely by `matches`: `!` matches every accepted type while all
queries answer None for it.  Plus: assign::can_be_used calls the result-type callback only after the admissibility
callback said yes."""
from ..engine import RuleResult
from ..owners import for_crate

T = "variable::r#type::Type::"
ROWS = [
    # (function whose result type / exec unwraps the query, query, creator that must ask, acceptable calls in the creator, why)
    ("BinOperation::return_type (At)", "index_result", "instruction::at::create", ["index_result"], "s[i]"),
    ("iter::return_type / iter::exec", "element_type", "instruction::unary_operation::iter::create", ["element_type"], "a~"),
    ("map::return_type", "return_type", "instruction::bin_op::map::can_be_used", ["return_type"], "it @ f: the mapper's result type"),
    ("add::return_type", "element_type", "instruction::bin_op::math::add::can_be_used", ["element_type"], "array concatenation"),
    ("collect::return_type", "iter_element", "instruction::reduce::collect::can_be_used", ["iter_element"], "it $]"),
    ("UnaryOperation::return_type (Sum)", "iter_element", "instruction::reduce::sum::create", ["iter_element"], "it $+"),
    ("UnaryOperation::return_type (Product)", "iter_element", "instruction::reduce::product::create", ["iter_element"], "it $*"),
    ("partition::return_type / exec", "iter_element", "instruction::bin_op::filter::can_be_used", ["iter_element"], "it ? p, it \\\\ p"),
    ("map::can_be_used element", "iter_element", "instruction::bin_op::map::can_be_used", ["iter_element"], "it @ f: the source's element type"),
    ("Reduce::return_type", "return_type", "instruction::reduce::Reduce::create_instruction", ["return_type", "iter_element"], "it $ init f"),
    ("BinOperation::return_type (FunctionCall)", "return_type", "instruction::function::call::create_instruction", ["is_function", "params"], "f(args): is_function is structural"),
    ("BinOperation::return_type (assignments)", "mut_element_type", "instruction::bin_op::assign::can_be_used", ["mut_element_type"], "c op= v"),
    ("indirection::return_type", "mut_element_type", "instruction::prefix_op::indirection::create_instruction", ["is_mut"], "*c: is_mut is structural"),
    ("FieldAccess::return_type", "field_type", "instruction::field_access::FieldAccess::create_instruction", ["has_field", "field_type"], "s.x: has_field is structural"),
    ("TupleAccess::return_type", "tuple_element_at", "instruction::tuple_access::TupleAccess::create_instruction", ["is_tuple", "min_tuple_len"], "t.0"),
    ("for: loop variable type", "iter_element", "instruction::r#loop::r#for::create_instruction", ["iter_element"], "for x in it"),
    ("DestructTuple: element types", "flatten_tuple", "instruction::destruct_tuple::DestructTuple::create_instruction", ["is_tuple", "tuple_len", "flatten_tuple"], "(a, b) := t"),
]


def run(ctx):
    res = RuleResult("R-QUERYGUARD", "each Type query unwrapped by a result type is asked (or structurally implied) by the operand check of "
                                     "the same construct; compound assignment computes its result type only for admissible operands")
    lib = ctx.facts.lib
    own = for_crate(lib)
    for what, query, creator, accept, why in ROWS:
        b = lib.body(creator)
        key = "queryguard:%s|%s" % (creator, query)
        if not res.anchor(b is not None, creator):
            continue
        callees = {c.callee for hb in own.members(creator) for c in hb.calls}
        for hb in own.members(creator):
            for _, nm, _, _ in hb.fn_operands():
                callees.add(nm)
        asked = sorted(a for a in accept if (T + a) in callees)
        if asked:
            res.ok(key, b.where(), "%s: asks Type::%s (%s unwraps Type::%s)" % (why, ", ".join(asked), what, query))
        else:
            res.bad(key, "%s unwraps Type::%s, but %s only tests the operand with `matches` (asks none of %s): the type `!` passes that "
                         "test while the query answers None, so a program with a diverging operand panics while parsing"
                    % (what, query, creator, ", ".join("Type::" + a for a in accept)), b.where())
    # the predicates accepted above as "structural" must be structural: a predicate written as `self.matches(<pattern type>)`
    # is true for `!` (which matches everything) while the query it stands in for answers None
    structural = sorted({a for _, q, _, accept, _ in ROWS for a in accept if a != q and not a.endswith("_len") and a not in
                         ("index_result", "element_type", "return_type", "iter_element", "mut_element_type", "field_type", "tuple_element_at", "flatten_tuple", "params")})
    for a in structural:
        pb = lib.body(T + a)
        key = "queryguard:structural|%s" % a
        if not res.anchor(pb is not None, T + a):
            continue
        via_matches = [c for hb in own.members(T + a) for c in hb.calls if c.callee == T + "matches"]
        if via_matches:
            res.bad(key, "Type::%s is decided by Type::matches: it answers true for `!`, so an operand of type `!` passes the check that "
                         "licenses unwrapping the corresponding query, and parsing panics instead of reporting an error" % a, pb.where(via_matches[0].line))
        else:
            res.ok(key, pb.where(), "structural (no matches call)")
    # assign::can_be_used: return_type callback control-dependent on the can_be_used callback
    b0 = lib.body("instruction::bin_op::assign::can_be_used")
    if res.anchor(b0 is not None, "assign::can_be_used"):
        CB = ("std::ops::FnOnce::call_once", "std::ops::Fn::call", "std::ops::FnMut::call_mut")
        # the two callbacks may sit in the function or in one closure / helper of it (e.g. the body of an `all` over the
        # member cells of a union): judge the body that holds them
        b = b0
        for hb in own.members(b0.id):
            if sum(1 for c in hb.calls if c.path in CB) >= 2:
                b = hb
                break
        cbs = [c for c in b.calls if c.path in CB]
        key = "queryguard:assign:return_type-after-can_be_used"
        if len(cbs) != 2:
            res.bad(key, "assign::can_be_used must call the admissibility callback and the result-type callback exactly once each (found %d calls)" % len(cbs), b.where())
        else:
            first, second = sorted(cbs, key=lambda c: len(b.dom[c.bb]))
            # the second callback must not be reachable when the false branch of the first one's result is taken
            t = b.blocks[first.term["target"]]["term"] if "target" in first.term else None
            guarded = False
            cur = first.term.get("target")
            seen = set()
            while cur is not None and cur not in seen:
                seen.add(cur)
                t = b.blocks[cur]["term"]
                if t["k"] == "switch":
                    zero = [tg for v, tg in t["targets"] if v == "0"]
                    if zero and second.bb not in b.reachable(zero[0]) and second.bb in b.reachable(t["otherwise"]):
                        guarded = True
                    break
                if t["k"] in ("goto", "drop") or (t["k"] == "call" and "target" in t and cur != second.bb):
                    cur = t.get("target")
                else:
                    break
            if guarded:
                res.ok(key, b.where(), "the result type is computed only on the admissible branch")
            else:
                res.bad(key, "assign::can_be_used computes the operation's result type even when the operands are inadmissible: the type "
                             "query inside it unwraps None (e.g. `m := mut [1]; m += 5` panics while parsing)", b.where(second.line))
    res.floor(len(res.instances), 17, "queryguard_rows")
    return res
