"""R-GUARD: every static check exists and is passed through; run-time errors originate only where documented."""
from ..engine import RuleResult
from ..model import aggregates
from .hashorder import load_table

ERR = "errors::error::Error"
XERR = "errors::exec_error::ExecError"
NOT_SUCCESS_CALLEES = ("std::ops::FromResidual::from_residual", "<std::result::Result<T, F> as std::ops::FromResidual<std::result::Result<std::convert::Infallible, E>>>::from_residual")


def success_blocks(b):
    """Blocks that produce the function's success value: `_0 = Ok(..)` aggregates, or a call writing `_0` directly
    (delegated construction) other than the `?` residual conversion."""
    out = []
    for i, s in b.assigns():
        if s["place"]["l"] == 0 and not s["place"]["p"] and s["rv"]["k"] == "agg" and s["rv"].get("adt") == "std::result::Result" and s["rv"]["variant"] == "Ok":
            out.append(i)
    for c in b.calls:
        if c.dest["l"] == 0 and not c.dest["p"] and c.callee not in NOT_SUCCESS_CALLEES and not c.path.endswith("from_residual"):
            out.append(c.bb)
    return sorted(set(out))


def controlling_switch(b, blk):
    """Nearest dominating switch block on which `blk` is control dependent: some successor of the switch can finish the
    function without passing through `blk` (so the switch decides whether `blk` runs)."""
    doms = [d for d in b.dom[blk] if d != blk and b.blocks[d]["term"]["k"] == "switch"]
    doms.sort(key=lambda d: -len(b.dom[d]))      # closest first
    rets = set(b.return_blocks())
    for d in doms:
        succ = b.succ[d]
        avoid_ok = [bool(rets & b.reachable(s, avoid=[blk])) if s != blk else False for s in succ]
        reach = [blk == s or blk in b.reachable(s) for s in succ]
        if any(reach) and any(avoid_ok):
            return d, [s for s, r in zip(succ, reach) if r], [s for s, a in zip(succ, avoid_ok) if a]
    return None, [], []


def judge_guard(b, err_blk):
    """-> (switch_bb, undominated success blocks, success blocks reachable from the error block)"""
    s, fail_succ, pass_succ = controlling_switch(b, err_blk)
    succs = success_blocks(b)
    if s is None:
        return None, succs, []
    undominated = [x for x in succs if not b.dominates(s, x)]
    leak = [x for x in succs if x in b.reachable(err_blk)]
    return s, undominated, leak


def run(ctx, only_variants=None):
    res = RuleResult("R-GUARD", "each static check (creation function, Error variant) exists, its test dominates every success "
                                "value of the function and its failure arm cannot reach one; each ExecError variant is raised "
                                "only by the documented functions")
    lib = ctx.facts.lib
    table = load_table("guards.tsv")
    if not res.anchor(bool(table), "tables/guards.tsv"):
        return res
    n = 0
    for key, row in table.items():
        body_id, variant = key.rsplit("|", 1)
        if only_variants and variant not in only_variants:
            continue
        count, undom_ok = int(row[0]), int(row[1])
        reason = row[2] if len(row) > 2 else ""
        b = lib.body(body_id)
        k = "guard:%s|%s" % (body_id, variant)
        if b is None:
            res.bad(k, "the function holding the %s check (%s) no longer exists" % (variant, body_id), "")
            continue
        # closures of the body may build the error (ok_or_else(|| Error::V))
        sites = []
        from ..owners import for_crate
        helpers = [h for h in for_crate(lib).cluster(body_id) if h is not b]
        for bb in [b] + [h for h in helpers]:
            for i, s in aggregates(bb, ERR, variant):
                sites.append((bb, i, s))
        if len(sites) < count:
            res.bad(k, "static check missing: %s builds Error::%s %d time(s), %d required (%s)" % (body_id, variant, len(sites), count, reason), b.where())
            continue
        n += 1
        bad = False
        for bb, i, s in sites:
            if bb is not b:
                if "{closure" in bb.id:
                    continue      # built in a closure (lazily, e.g. ok_or_else): presence is the obligation
                # built in a helper extracted from this function: the helper's own test must guard it, and the function
                # must pass through the helper on every path to a success value
                sw, _, leak = judge_guard(bb, i)
                gates = {c.bb for c in b.calls if c.callee == bb.id}
                succs = success_blocks(b)
                if sw is None or leak:
                    res.bad(k, "Error::%s in helper %s is not guarded by a test" % (variant, bb.id), bb.where(s.get("line")))
                    bad = True
                elif len([x for x in succs if x in b.reachable(0, avoid=gates)]) > undom_ok:
                    res.bad(k, "%s reaches a success value without calling %s, which holds the %s check" % (body_id, bb.id, variant), b.where())
                    bad = True
                continue
            sw, undominated, leak = judge_guard(b, i)
            if sw is None:
                res.bad(k, "Error::%s in %s is not guarded by a test (unconditional or unreachable)" % (variant, body_id), b.where(s.get("line")))
                bad = True
            elif len(undominated) > undom_ok:
                res.bad(k, "the %s test in %s does not dominate every success value: %d success return(s) bypass it (%d reviewed): "
                           "the check can be skipped" % (variant, body_id, len(undominated), undom_ok), b.where(s.get("line")))
                bad = True
            elif leak:
                res.bad(k, "after building Error::%s, %s can still reach a success value" % (variant, body_id), b.where(s.get("line")))
                bad = True
        if not bad:
            res.ok(k, b.where(), reason)
    res.floor(n, 40 if not only_variants else 1, "guards_checked")
    return res


def run_execerror(ctx):
    res = RuleResult("R-GUARD-X", "each documented run-time error is raised exactly by the reviewed functions (and nothing else raises it)")
    lib = ctx.facts.lib
    table = load_table("exec_errors.tsv")
    if not res.anchor(bool(table), "tables/exec_errors.tsv"):
        return res
    if res.anchor(XERR in lib.adts, XERR):
        vs = {v["name"] for v in lib.adts[XERR]["variants"]}
        tv = {k.rsplit("|", 1)[1] for k in table}
        for v in sorted(vs - tv):
            res.bad("execerror:variant:" + v, "ExecError::%s is a run-time failure the documented list does not contain" % v, "src/errors/exec_error.rs")
    found = {}
    from ..owners import for_crate
    own = for_crate(lib)
    for b in lib.bodies.values():
        if b.impl_trait in ("std::fmt::Debug", "std::clone::Clone", "std::cmp::PartialEq", "std::fmt::Display"):
            continue
        for i, s in aggregates(b, XERR):
            # an error raised in a new helper counts for the reviewed function(s) that call the helper
            for o in sorted(own.of(b.id)):
                found.setdefault("%s|%s" % (o, s["rv"]["variant"]), []).append((b, i, s))
    for key, sites in found.items():
        k = "execerror:" + key
        b, i, s = sites[0]
        if key not in table:
            res.bad(k, "%s raises ExecError::%s; the documented sources of that error are %s"
                    % (b.id, s["rv"]["variant"], sorted(x.rsplit("|", 1)[0] for x in table if x.endswith("|" + s["rv"]["variant"]))), b.where(s.get("line")))
            continue
        # must be conditional
        unguarded = [1 for bb, ii, ss in sites if controlling_switch(bb, ii)[0] is None]
        if unguarded:
            res.bad(k, "ExecError::%s is raised unconditionally in %s" % (s["rv"]["variant"], b.id), b.where(s.get("line")))
        else:
            res.ok(k, b.where(s.get("line")), table[key][0] if table[key] else "")
    for key in table:
        if key not in found:
            res.bad("execerror:" + key, "the documented error arm disappeared: %s no longer raises ExecError::%s (the operation "
                                        "would panic or return a wrong value instead)" % tuple(key.rsplit("|", 1)), "")
    res.floor(len(found), 13, "execerror_sites")
    return res


def _always_calls(lib, fid, alts, depth):
    hb = lib.body(fid)
    if hb is None or depth > 2 or "{closure" in fid:
        return False
    g = {c.bb for c in hb.calls if c.callee in alts or c.path in alts}
    g |= {c.bb for c in hb.calls if c.callee not in alts and c.callee != fid and _always_calls(lib, c.callee, alts, depth + 1)}
    if not g:
        return False
    reach = hb.reachable(0, avoid=g)
    return not any(r in reach for r in hb.return_blocks())


def run_mustcall(ctx):
    res = RuleResult("R-MUSTCALL", "every path of F from entry to a success value passes through a call to the named check "
                                   "(must-pass-through)")
    lib = ctx.facts.lib
    table = load_table("must_call.tsv")
    if not res.anchor(bool(table), "tables/must_call.tsv"):
        return res
    from ..owners import for_crate
    own = for_crate(lib)
    for key, row in table.items():
        fid, callees = key.split("|", 1)
        alts = [c.strip() for c in callees.split(" || ")]
        b = lib.body(fid)
        k = "mustcall:%s|%s" % (fid, callees)
        if not res.anchor(b is not None, fid):
            continue
        gates = {c.bb for c in b.calls if c.callee in alts or c.path in alts}
        # a crate-local wrapper that makes the call on every path to its return is as good as the call itself
        gates |= {c.bb for c in b.calls if c.callee not in alts and _always_calls(lib, c.callee, alts, 0)}
        if len(row) > 1 and row[1] == "calls" and not gates:
            # presence obligation: the call may live in a closure or an extracted helper of the function
            if any(c.callee in alts or c.path in alts for hb in own.members(fid) for c in hb.calls):
                res.ok(k, b.where(), "calls it in a closure / helper (presence obligation): " + row[0])
                continue
        for a in alts:
            if a.startswith("field:"):
                # a block that reads the named field (of any base) also counts as passing the check
                from ..model import places_read
                gates |= {bb for bb, pl, _ in places_read(b) if any(e["k"] == "field" and e.get("name") == a[6:] for e in pl["p"])}
        if not gates:
            res.bad(k, "%s no longer calls %s (%s)" % (fid, " / ".join(alts), row[0] if row else ""), b.where())
            continue
        if len(row) > 1 and row[1] == "calls":
            res.ok(k, b.where(), "calls it (presence obligation): " + row[0])
            continue
        succs = b.return_blocks() if (len(row) > 1 and row[1] == "all-returns") else (success_blocks(b) or b.return_blocks())
        # a gate call that fails leaves through `?`: success must be unreachable when gate blocks are removed
        reach = b.reachable(0, avoid=gates)
        leaks = [s for s in succs if s in reach]
        if leaks:
            res.bad(k, "%s can reach a success value without calling %s: the check is bypassed on some path" % (fid, " / ".join(alts)), b.where())
        else:
            res.ok(k, b.where(), row[0] if row else "")
    res.floor(len(res.instances), 5, "mustcall_rows")
    fx = ctx.fixtures.body("guard::bypassed")
    ok = False
    if fx is not None:
        gates = {c.bb for c in fx.calls if c.callee == "guard::check"}
        ok = bool(gates) and any(s in fx.reachable(0, avoid=gates) for s in success_blocks(fx))
    res.control(ok, "guard::bypassed (one arm skips the check)")
    return res
