"""R-PANIC: complete inventory of panic-capable sites, each matched to a reviewed justification row
(tables/panic_sites.tsv), as a per-function multiset of site signatures. A new site, or more sites of a signature than
reviewed, is a violation naming the function and the signature."""
import re
from collections import Counter

from ..engine import RuleResult
from ..model import is_panic_call
from .hashorder import load_table

UNWRAPS = {"unwrap", "expect", "unwrap_err", "expect_err", "unwrap_unchecked"}
INDEXERS = ("std::ops::Index::index", "std::ops::IndexMut::index_mut")


def short_ty(t):
    t = re.sub(r"'[a-z_]+,? ?", "", t)
    t = t.replace("std::option::Option", "Option").replace("std::result::Result", "Result").replace("std::sync::", "")
    t = t.replace("pest::iterators::Pair<simplesl_parser::Rule>", "Pair").replace("pest::iterators::Pairs<simplesl_parser::Rule>", "Pairs")
    t = re.sub(r"\{closure@[^}]*\}", "{closure}", t)
    return t


# std functions documented to panic on some argument (beyond unwrap / expect / indexing, which have their own signatures)
PANICKY = ("split_at", "split_at_mut", "split_off", "swap_remove", "copy_from_slice", "clone_from_slice", "chunks", "chunks_exact",
           "windows", "rotate_left", "rotate_right", "step_by", "div_euclid", "rem_euclid", "ilog", "ilog2", "ilog10", "isqrt",
           "borrow_mut", "from_digit", "to_digit", "replace_range", "insert_str", "char_at", "abs", "pow", "repeat", "swap")
PANICKY_EXACT = {"std::vec::Vec::<T, A>::remove", "std::vec::Vec::<T, A>::insert", "std::vec::Vec::<T, A>::drain", "std::string::String::remove",
                 "std::string::String::insert", "std::string::String::drain", "std::string::String::truncate",
                 "std::cell::RefCell::<T>::borrow", "std::collections::VecDeque::<T, A>::remove",
                 # println! / eprintln! panic when the stream cannot be written (closed pipe, full device)
                 "std::io::_print", "std::io::_eprint"}


def sites(b):
    """[(signature, line, expansion)]"""
    out = []
    for c in b.calls:
        if c.callee in PANICKY_EXACT or (c.callee.startswith(("core::", "std::", "alloc::")) and c.callee.rsplit("::", 1)[-1] in PANICKY
                                          and not c.callee.startswith(("std::iter::", "core::iter::"))):
            out.append(("panicky %s" % c.callee, c.line, c.exp))
            continue
        m = c.callee.rsplit("::", 1)[-1]
        if (c.callee.startswith("std::option::Option::<T>::") or c.callee.startswith("std::result::Result::<T, E>::")) and m in UNWRAPS:
            t = short_ty(c.term.get("arg_tys", ["?"])[0])
            # a downcast carried through Option::map + transpose is the same obligation as the direct one
            m2 = re.fullmatch(r"Result<Option<(.*)>, variable::Variable>", t)
            if m2:
                t = "Result<%s, variable::Variable>" % m2.group(1)
            out.append(("unwrap %s" % t, c.line, c.exp))     # unwrap / expect / unwrap_err: one signature
        elif is_panic_call(c):
            # one panic per call; collapse formatting differences; keep the macro that produced it
            mac = (c.exp or "").split("<")[0].replace("$crate::", "").replace("::core::", "").replace("::std::", "")
            out.append(("panic %s" % (mac or c.callee.rsplit("::", 1)[-1]), c.line, c.exp))
        elif c.path in INDEXERS:
            out.append(("index %s" % short_ty(c.self_ty), c.line, c.exp))
        elif c.callee.startswith("core::slice::index::") or "slice_index" in c.callee:
            out.append(("index-fn %s" % c.callee.rsplit("::", 1)[-1], c.line, c.exp))
    for i, blk in enumerate(b.blocks):
        t = blk["term"]
        if t["k"] == "assert" and t["msg"] not in ("MisalignedPointerDereference", "NullPointerDereference", "InvalidEnumConstruction"):
            if t["msg"] == "Overflow" and _len_plus_small(b, blk, t):
                out.append(("assert Overflow(len + small constant)", t.get("line"), t.get("exp")))
                continue
            out.append(("assert %s" % t["msg"], t.get("line"), t.get("exp")))
    return out


def _len_plus_small(b, blk, t):
    """`x.len() + c` with a small constant c: a slice / Vec / str length is at most isize::MAX, the sum cannot overflow usize"""
    from ..model import op_local
    from .export import single_def
    cl = t["cond"].get("l")
    for st in blk["stmts"]:
        if st["k"] == "assign" and st["place"]["l"] == cl and st["rv"]["k"] == "binop" and st["rv"].get("op") == "AddWithOverflow" \
                and st["rv"].get("ty") == "usize":
            a, c = st["rv"]["a"], st["rv"]["b"]
            if a.get("k") == "const":
                a, c = c, a
            if c.get("k") != "const":
                return False
            try:
                if int(str(c.get("val", "")).split("_")[0]) >= 1 << 32:
                    return False
            except ValueError:
                return False
            cur = op_local(a)
            for _ in range(5):
                d = single_def(b, cur) if cur is not None else None
                if d is None:
                    return False
                if d[1] == "call":
                    return d[2]["func"].get("fn", {}).get("path", "").rsplit("::", 1)[-1] == "len"
                rv = d[2]["rv"]
                if rv["k"] == "unop" and rv.get("op") == "PtrMetadata":
                    return True
                if rv["k"] == "use":
                    cur = op_local(rv["o"])
                else:
                    return False
    return False


def inventory(lib):
    inv = {}
    for b in lib.bodies.values():
        if b.impl_trait in ("std::fmt::Debug",) and b.exp:
            continue
        if b.kind.startswith("Const"):
            # the initialiser of a `const` item is evaluated by the compiler: an overflow there is a compile error, never a
            # run-time panic (e.g. `const LOWEST_BOUND: i64 = -i64::MAX;`)
            continue
        ss = sites(b)
        if ss:
            inv[b.id] = ss
    return inv


def auto_class(bid, sig):
    if "Option<Pair>" in sig or "Option<&Pair>" in sig:
        return "grammar-shape", "unwrap of a child pair: the grammar guarantees the child (R-PAIRFLOW / R-TABLES)"
    if "PoisonError" in sig:
        return "lock-poison", "a poisoned lock needs an earlier panic under the guard (R-LOCK: none reachable)"
    if "__static_ref_initialize" in bid:
        if "{closure" in bid:
            return "native-arg", "generated argument import of an #[export] function (R-EXPORT: names and kinds agree; callers checked by R-GUARD)"
        return "lazy-const", "parse / evaluation of an embedded literal at first use"
    if sig.startswith(("unwrap Result<", "expect Result<")) and sig.endswith(", variable::Variable>"):
        return "downcast", "into_X().unwrap() after the static type check of the creating function (R-GUARD row)"
    if sig.startswith(("unwrap Option<variable::r#type::Type>", "unwrap Option<usize>", "unwrap Option<Arc<[variable::r#type::Type]>>")):
        return "type-query", "Type query guarded by the matching admissibility test at creation"
    if sig.startswith("panic") and (bid.endswith("::exec") or "::exec::" in bid) and "bin_op" in bid or "prefix_op" in bid:
        return "kernel-default", "operand kinds excluded by can_be_used (R-GUARD CannotDo2 / IncorectUnaryOperatorOperand)"
    if sig.startswith("panic") and "unexpected" in sig:
        return "dead-variant", "default arm of a match on Rule: every producible rule has an arm (R-TABLES / R-PAIRFLOW)"
    if sig.startswith("assert"):
        return "arith", "arithmetic on lengths / indices, range established before"
    return "other", "TO REVIEW"


def auto_discharged(ctx, lib):
    """Sites whose justification is re-derived on every run instead of being frozen in the table:
       grammar-shape -> R-PAIRFLOW visited the unwrap and found the child present on every child sequence;
       native-arg    -> the site is in the argument-import closure of a Function::new whose names/kinds R-EXPORT checks;
       lazy-const    -> first-use initialiser of a lazy_static (embedded literal / declaration);
       lock-poison   -> unwrap of a LockResult (R-LOCK: nothing can panic under a guard)."""
    from . import pairflowrule
    from .export import exports
    try:
        pf, _ = pairflowrule.make(lib, ctx.facts)
        for r in pairflowrule.ROOTS:
            b = lib.body(r)
            if b is not None:
                pf.analyse(r, [None] * b.arg_count, [], force=True)
        pair_ok = {site for site, v in pf.unwrap_sites.items() if v == "ok"}
    except Exception:
        pair_ok = set()
    export_closures = {e["closure"] for e in exports(lib) if e["closure"]}
    return pair_ok, export_closures


def auto_reason(bid, sig, line, pair_ok, export_closures):
    if ("Option<Pair>" in sig or "Option<&Pair>" in sig) and sig.startswith(("unwrap", "expect")):
        return "grammar-shape: child present on every child sequence (R-PAIRFLOW)" if (bid, line) in pair_ok else None
    if bid in export_closures and (sig.startswith("unwrap Option<&variable::Variable>") or
                                   (sig.startswith("unwrap Result<") and (sig.endswith(", ()>") or sig.endswith("std::convert::Infallible>")))):
        return "native-arg: generated argument import (R-EXPORT names / kinds agree)"
    if "__static_ref_initialize" in bid and "{closure" not in bid:
        return "lazy-const: first-use initialiser of an embedded literal"
    if "PoisonError" in sig:
        return "lock-poison: discharged by R-LOCK"
    if sig == "assert Overflow(len + small constant)":
        return "arith: a length (<= isize::MAX) plus a small constant cannot overflow usize"
    return None


def run(ctx, scope=None, name="R-PANIC"):
    res = RuleResult(name, "per function, the multiset of panic-capable sites (unwrap/expect, panic!/unreachable!, asserts, indexing) "
                           "equals the reviewed rows of tables/panic_sites.tsv; each row names what discharges it")
    lib = ctx.facts.lib
    table = load_table("panic_sites.tsv")
    if not res.anchor(bool(table), "tables/panic_sites.tsv"):
        return res
    inv = inventory(lib)
    pair_ok, export_closures = auto_discharged(ctx, lib)
    from ..owners import for_crate, base
    own = for_crate(lib)
    total = 0
    n_auto = 0
    # allowances per (reviewed function, signature); a site in a new helper is charged to every reviewed function the
    # helper is called from (each of them had that site reviewed when the code was still inline)
    allow = {k: int(v[0]) for k, v in table.items()}
    used = Counter()
    existing = {base(i) for i in lib.bodies}
    orphan = Counter()
    for k, v in table.items():
        if k.split("|", 1)[0] not in existing:
            orphan[k.split("|", 1)[1]] += int(v[0])     # the reviewed function was removed / inlined: its allowance is pooled
    pending = {}
    for bid, ss in sorted(inv.items()):
        b = lib.bodies[bid]
        owners = sorted(own.of(bid))
        if scope and not any(scope(o) for o in owners) and not scope(bid):
            continue
        for sig, line, exp in ss:
            total += 1
            why = auto_reason(bid, sig, line, pair_ok, export_closures)
            if why:
                n_auto += 1
                res.ok("panic:%s|%s" % (bid, sig), b.where(line), why)
                continue
            keys = ["%s|%s" % (o, sig) for o in owners]
            if all(used[k] < allow.get(k, 0) for k in keys):
                for k in keys:
                    used[k] += 1
                row = table[keys[0]]
                cls = row[1]
                if cls == "finding":
                    res.bad("panic:" + keys[0], "site `%s` in %s has no justification: %s" % (sig, bid, row[2] if len(row) > 2 else ""), b.where(line))
                else:
                    note = "%s: %s" % (cls, (row[2] if len(row) > 2 else "")[:120])
                    if base(bid) != owners[0] or len(owners) > 1:
                        note = "in helper %s, charged to %s; " % (bid, ", ".join(owners)) + note
                    res.ok("panic:" + keys[0], b.where(line), note)
            elif orphan[sig] > 0:
                orphan[sig] -= 1
                res.ok("panic:%s|%s" % (bid, sig), b.where(line), "uses the allowance of a reviewed function that no longer exists (inlined)")
            else:
                pending.setdefault(("%s|%s" % (owners[0], sig), bid, sig), []).append(line)
    for (key, bid, sig), lines in sorted(pending.items()):
        b = lib.bodies[bid]
        k0 = key
        have = allow.get(k0, 0)
        if have:
            res.bad("panic:" + k0, "%s has more sites `%s` than the %d reviewed (extra at lines %s)" % (bid, sig, have, lines), b.where(lines[0]))
        else:
            res.bad("panic:" + k0, "unreviewed panic-capable site in %s: `%s` (x%d, lines %s) - a new obligation nobody discharges"
                    % (bid, sig, len(lines), lines), b.where(lines[0]))
    res.stats["panic_sites"] = total
    res.stats["discharged_by_analysis"] = n_auto
    if not scope:
        res.floor(total, 300, "panic_sites_total")
    # positive control: a fresh unwrap in the fixture crate is seen by the site extractor
    fx = ctx.fixtures.body("panic::new_unwrap")
    fa = ctx.fixtures.body("panic::raw_add")
    res.control(fx is not None and any(s.startswith("unwrap Option<") for s, _, _ in sites(fx)), "panic::new_unwrap")
    res.control(fa is not None and any(s.startswith("assert Overflow") for s, _, _ in sites(fa)), "panic::raw_add (overflow assert of `+`)")
    return res
