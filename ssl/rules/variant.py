"""R-VARIANT: wildcard / unreachable! arms of matches over enums are dead.

(i)   value-set dataflow on the discriminant of an immutable place along dominating switches (And / Or never reach the
      second match in BinOperation::exec);
(ii)  never-constructed: the variants whose arm panics are never stored into that field by any aggregate in the crate;
(iii) natives with #[var_type(..)] on a &Variable parameter: every declared kind has a non-panicking arm
      (a raw Variable parameter without #[var_type] is declared `any`: every kind)."""
import re

from ..engine import RuleResult
from ..model import enum_switches, aggregates, op_local
from .export import exports, closure_imports, single_def

BEXEC = "<instruction::bin_op::BinOperation as instruction::Exec>::exec"
UEXEC = "<instruction::unary_operation::UnaryOperation as instruction::Exec>::exec"
URET = "<instruction::unary_operation::UnaryOperation as variable::r#type::ReturnType>::return_type"


def panics(b, start):
    seen = set()
    cur = start
    while cur not in seen:
        seen.add(cur)
        t = b.blocks[cur]["term"]
        if t["k"] == "call":
            fn = t["func"].get("fn", {})
            callee = fn.get("resolved") or fn.get("path", "")
            if callee.startswith(("core::panicking::", "std::rt::begin_panic")):
                return True
            if callee.startswith(("core::fmt::", "std::fmt::", "<std::fmt", "<core::fmt")) and "target" in t:
                cur = t["target"]
                continue
            return False
        if t["k"] == "goto":
            cur = t["target"]
            continue
        return t["k"] == "unreachable"
    return False


def place_key(pl):
    return (pl["l"], tuple((e["k"], e.get("name") or e.get("i") or e.get("variant")) for e in pl["p"]))


def live_variants(b, sw, all_sws, universe):
    """variants that can arrive at switch `sw` (same immutable place), given the switches that dominate it"""
    live = set(universe)
    for s2 in all_sws:
        if s2 is sw or place_key(s2["place"]) != place_key(sw["place"]) or not b.dominates(s2["bb"], sw["bb"]):
            continue
        # variants whose arm in s2 cannot flow on to sw
        for v, tgt in s2["arms"].items():
            if sw["bb"] not in b.reachable(tgt, avoid=[s2["bb"]]):
                live.discard(v)
        if sw["bb"] not in b.reachable(s2["otherwise"], avoid=[s2["bb"]]):
            for v in s2["rest"]:
                live.discard(v)
    return live


def constructible(lib, struct, field):
    """(set of constant variants stored into struct.field by aggregates, number of opaque stores, sites)"""
    consts, opaque, sites = set(), [], 0
    for b in lib.bodies.values():
        for i, s in aggregates(b, struct):
            sites += 1
            rv = s["rv"]
            o = rv["ops"][rv["fields"].index(field)]
            v = _const_variant(b, o, 0)
            if v is not None:
                consts.add(v)
                continue
            # a helper that stores its own parameter: the stored values are what its callers pass
            l = op_local(o) if not o.get("p") else None
            for _ in range(6):
                if l is None or 1 <= l <= b.arg_count:
                    break
                d = single_def(b, l)
                l = op_local(d[2]["rv"]["o"]) if (d and d[1] == "assign" and d[2]["rv"]["k"] == "use" and not d[2]["rv"]["o"].get("p")) else None
            if l is not None and 1 <= l <= b.arg_count and "{closure" not in b.id:
                passed = []
                for cb in lib.bodies.values():
                    for c in cb.calls:
                        if c.callee == b.id and len(c.args) >= l:
                            passed.append(_const_variant(cb, c.args[l - 1], 0))
                if passed and all(x is not None for x in passed):
                    consts.update(passed)
                    continue
            opaque.append((b, s, o))
    return consts, opaque, sites


def _const_variant(b, o, depth):
    if depth > 6:
        return None
    if o.get("k") == "const":
        v = o.get("val", "")
        return v.rsplit("::", 1)[-1] if "::" in v else None
    l = op_local(o)
    if l is None or o.get("p"):
        return None
    ds = b.def_sites(l)
    if len(ds) != 1 or ds[0][1] != "assign":
        return None
    rv = ds[0][2]["rv"]
    if rv["k"] == "agg" and rv.get("agg") == "adt" and not rv["ops"]:
        return rv["variant"]
    if rv["k"] == "use":
        return _const_variant(b, rv["o"], depth + 1)
    return None


def run(ctx):
    res = RuleResult("R-VARIANT", "the variants that can reach a panicking arm of a match over an enum field are an empty set")
    lib = ctx.facts.lib
    # ---- (i) BinOperation::exec: default arm of the main match
    b = lib.body(BEXEC)
    if res.anchor(b is not None, BEXEC):
        enum = "bin_operator::BinOperator"
        universe = [v["name"] for v in lib.adts[enum]["variants"]]
        sws = enum_switches(b, enum)
        # the number of switches is a matter of style (`if let` twice or one `match` with a `_ => ()` arm): what has to
        # exist is a switch over the operator at all; the dataflow below decides which variants reach a panicking default
        res.floor(len(sws), 1, "switches:BinOperation::exec")
        for sw in sws:
            if not panics(b, sw["otherwise"]):
                continue
            live = live_variants(b, sw, sws, universe)
            rest = sorted(v for v in sw["rest"] if v in live)
            key = "variant:BinOperation::exec|default"
            if rest:
                res.bad(key, "BinOperator::%s reach(es) the unreachable!() default arm of BinOperation::exec: executing such an operation "
                             "panics" % ", ".join(rest), b.where(sw.get("line")))
            else:
                res.ok(key, b.where(sw.get("line")), "variants without an arm (%s) are all diverted by the dominating `if let` tests" % ", ".join(sorted(sw["rest"])))
    # ---- (ii) UnaryOperation: panicking arms vs constructible op values
    enum = "unary_operator::UnaryOperator"
    consts, opaque, sites = constructible(lib, "instruction::unary_operation::UnaryOperation", "op")
    res.floor(sites, 10, "UnaryOperation_aggregates")
    # opaque stores must be copies of an existing UnaryOperation's op (recreate) or a parameter constant at all call sites
    for ob, s, o in opaque:
        src = single_def(ob, op_local(o)) if op_local(o) is not None else None
        okc = False
        if src and src[1] == "assign" and src[2]["rv"]["k"] == "use":
            p = src[2]["rv"]["o"]
            if p.get("p") and p["p"][-1].get("name") == "op":
                okc = True          # copied from another UnaryOperation
        if ob.id.endswith("Recreate>::recreate") and not okc:
            # `op => UnaryOperation { instruction, op }` binds by copy of self.op through the match scrutinee
            okc = any(e.get("name") == "op" for _, st in ob.assigns() for e in (st["rv"].get("place") or {"p": []})["p"]) or \
                any(e.get("name") == "op" for _, st in ob.assigns() if st["rv"]["k"] == "use" for e in st["rv"]["o"].get("p", []))
        key = "variant:UnaryOperation.op|store:%s" % ob.id
        if okc:
            res.ok(key, ob.where(s.get("line")), "op copied from an existing UnaryOperation")
        else:
            res.bad(key, "%s stores a UnaryOperator that is not a constant into UnaryOperation.op: the set of executed unary operators "
                         "is no longer known" % ob.id, ob.where(s.get("line")))
    for bid in (UEXEC,):
        ub = lib.body(bid)
        if not res.anchor(ub is not None, bid):
            continue
        for sw in enum_switches(ub, enum):
            dead = sorted(v for v, tgt in sw["arms"].items() if panics(ub, tgt))
            if panics(ub, sw["otherwise"]):
                dead += sorted(sw["rest"])
            alive = sorted(set(dead) & consts)
            key = "variant:UnaryOperation::exec|panicking-arms"
            if alive:
                res.bad(key, "UnaryOperator::%s is stored into a UnaryOperation somewhere, but executing it hits unreachable!()" % ", ".join(alive), ub.where(sw.get("line")))
            else:
                res.ok(key, ub.where(sw.get("line")), "panicking arms %s; constructed operators %s" % (dead, sorted(consts)))
    # ---- (iii) natives with explicit #[var_type] on &Variable
    n = 0
    for e in exports(lib):
        if not e["closure"]:
            continue
        ci = closure_imports(lib, e["closure"])
        if ci is None or ci[3] is None:
            continue
        wrapped = lib.body(ci[3].callee)
        if wrapped is None:
            continue
        hb = e["holder"]
        for idx, (pname, tx) in enumerate(e["params"]):
            if tx is not None:
                if re.sub(r"'[a-z_0-9]+ ", "", tx) not in ("&variable::Variable", "variable::Variable"):
                    continue
                # no #[var_type]: the parameter is declared `any` (TypeOf for Variable), so every kind can arrive
                kinds = {v["name"] for v in lib.adts["variable::Variable"]["variants"]}
                declared_any = True
            else:
                kinds = _declared_kinds(hb, e, idx)
                declared_any = False
            if not kinds:
                continue
            sws = enum_switches(wrapped, "variable::Variable")
            if not sws:
                continue
            n += 1
            sw = sws[0]
            bad = sorted(k for k in kinds if (k in sw["arms"] and panics(wrapped, sw["arms"][k])) or (k not in sw["arms"] and panics(wrapped, sw["otherwise"])))
            key = "variant:native|%s|%s" % (ci[3].callee, pname)
            if bad:
                res.bad(key, "%s declares parameter `%s` as %s but kind(s) %s fall into its panicking arm" %
                        (ci[3].callee, pname, "any (it has no #[var_type])" if declared_any else sorted(kinds), bad), wrapped.where())
            else:
                res.ok(key, wrapped.where(), "declared kinds %s all have a non-panicking arm" % sorted(kinds))
    res.floor(n, 3, "natives_with_var_type")
    return res


def _declared_kinds(hb, e, idx):
    """Type variants aggregated for the var_type of parameter idx (through `|`)."""
    from .export import trace_agg
    arr = trace_agg(hb, e["call"].args[0], "array")
    if arr is None or idx >= len(arr["ops"]):
        return set()
    d = single_def(hb, op_local(arr["ops"][idx])) if op_local(arr["ops"][idx]) is not None else None
    if not d or d[1] != "assign" or d[2]["rv"].get("adt") != "function::param::Param":
        return set()
    return _kinds_of(hb, d[2]["rv"]["ops"][1], 0)


def _kinds_of(b, o, depth):
    if depth > 6 or op_local(o) is None:
        return set()
    d = single_def(b, op_local(o))
    if d is None:
        return set()
    if d[1] == "assign":
        rv = d[2]["rv"]
        if rv["k"] == "agg" and rv.get("adt") == "variable::r#type::Type":
            return {rv["variant"]}
        if rv["k"] in ("use", "cast"):
            return _kinds_of(b, rv["o"], depth + 1)
        return set()
    p = d[2]["func"].get("fn", {}).get("path", "")
    if p.endswith("bitor") or p.endswith("concat"):
        return _kinds_of(b, d[2]["args"][0], depth + 1) | _kinds_of(b, d[2]["args"][1], depth + 1)
    if p.rsplit("::", 1)[-1] in ("into", "from", "clone"):
        return _kinds_of(b, d[2]["args"][0], depth + 1)
    return set()
