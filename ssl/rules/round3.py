"""Rules added after the third round of independent seeded changes.

R-MEETUSE      Type::conjoin is a lower bound, not the meet (no struct case, `_ => Never`): it is sound only where a smaller
               type is the safe direction (function parameter types). Who may call it is a closed list.
R-CHILDKEEP    creation / folding / execution code of the instruction layer never filters a collection of child
               instructions (arms, candidates, elements, statements): a dropped child is an operand that is not evaluated.
R-ASSIGNTYPING the typing functions of operator X used for the plain operator are also used for `X=` (sibling agreement
               between the arms of the admissibility dispatcher).
R-PRATTONLY    prefix / postfix / infix operations are built only inside the closures handed to PRATT_PARSER.
R-VALUEARM     a value arm of `match` is decided by Variable == alone.
R-ITERFOLD     nothing that creates or pulls an iterator is reachable from folding code."""
import re

from ..engine import RuleResult
from ..model import enum_switches, arm_region, calls_in, op_local
from ..owners import for_crate, base
from .export import single_def

T = "variable::r#type::Type::"


# ---------------------------------------------------------------- R-MEETUSE
MEET_CALLERS = {T + "conjoin": "recursion over the structure of the two types",
                T + "params": "intersection of the parameter types of the members of a union of functions (contravariant position: a "
                              "smaller type only rejects more calls)"}


def run_meetuse(ctx):
    res = RuleResult("R-MEETUSE", "Type::conjoin (a lower bound of its arguments, `!` whenever it has no case) is called only where a "
                                  "too-small answer is safe: the parameter types of a union of functions")
    lib = ctx.facts.lib
    own = for_crate(lib)
    target = T + "conjoin"
    if not res.anchor(lib.body(target) is not None, target):
        return res
    n = 0
    for b in sorted(lib.bodies.values(), key=lambda x: x.id):
        sites = [c for c in b.calls if c.callee == target] + [x for x in b.fn_operands() if x[1] == target]
        if not sites:
            continue
        n += 1
        owners = own.of(b.id)
        key = "meetuse:%s" % base(b.id)
        if owners and all(o in MEET_CALLERS for o in owners):
            res.ok(key, b.where(), MEET_CALLERS[sorted(owners)[0]])
        else:
            res.bad(key, "%s calls Type::conjoin: conjoin answers `!` for every pair it has no case for (struct types, functions of "
                         "different arity), so using it to narrow the type of a value or to decide that a type test cannot succeed "
                         "claims fewer values than can arrive" % base(b.id), b.where())
    res.floor(n, 2, "conjoin_callers")
    return res


# ---------------------------------------------------------------- R-CHILDKEEP
DROPPERS = re.compile(r"::(filter|filter_map|retain|retain_mut|take_while|skip_while|skip|take|step_by|dedup|dedup_by|dedup_by_key|"
                      r"truncate|drain|pop|remove|swap_remove|split_off|map_while|nth|last)$")
DROP_OK = {("instruction::local_variable::LocalVariables::<'a>::create_instructions", "retain"):
           "drops statements that are a bare constant and not the last one (R-RETAIN reviews the predicate)",
           ("instruction::local_variable::LocalVariables::<'a>::create_instructions", "pop"): "takes the last statement out and puts it back (value of the block)",
           ("<instruction::block::Block as instruction::Exec>::exec", "last"): "value of a block = its last statement; all statements were executed",
           ("<instruction::block::Block as variable::r#type::ReturnType>::return_type", "last"): "type of a block = type of its last statement",
           ("<code::Code as variable::r#type::ReturnType>::return_type", "last"): "type of a program = type of its last statement",
           ("instruction::at::exec", "nth"): "string indexing: the n-th scalar value (R-UNITS)"}
CHILD_SCOPE = ("instruction::", "<instruction::", "code::", "<code::", "function::", "<function::")


def run_childkeep(ctx):
    res = RuleResult("R-CHILDKEEP", "the instruction layer never filters, truncates or skips a collection (of child instructions, arms, "
                                    "candidates, arguments) outside the reviewed sites")
    lib = ctx.facts.lib
    own = for_crate(lib)
    n = 0
    used = set()
    for b in sorted(lib.bodies.values(), key=lambda x: x.id):
        owners = sorted(own.of(b.id))
        if not any(o.startswith(CHILD_SCOPE) for o in owners):
            continue
        for c in b.calls:
            m = DROPPERS.search(c.path or "")
            if not m or not (c.path.startswith(("std::", "core::", "alloc::", "itertools::")) or "Iterator" in c.path):
                continue
            n += 1
            what = m.group(1)
            key = "childkeep:%s|%s" % (owners[0], what)
            if all((o, what) in DROP_OK for o in owners):
                used.add((owners[0], what))
                res.ok(key, b.where(c.line), DROP_OK[(owners[0], what)])
            else:
                res.bad(key, "%s calls %s: part of a collection is dropped while creating / folding / running an instruction - a dropped "
                             "arm, candidate, element or statement is never checked or evaluated" % (base(b.id), c.path), b.where(c.line))
    res.stats["sites"] = n
    res.floor(n, 4, "reviewed_dropping_sites")
    # positive control
    fx = ctx.fixtures.body("folddrop::filter_children")
    res.control(fx is not None and any(DROPPERS.search(c.path or "") for c in fx.calls), "folddrop::filter_children (a retain over children)")
    return res


# ---------------------------------------------------------------- R-ASSIGNTYPING
def _snake(v):
    return re.sub(r"(?<!^)(?=[A-Z])", "_", v).lower()


BASE_OF = {"AssignAdd": "Add", "AssignSubtract": "Subtract", "AssignMultiply": "Multiply", "AssignDivide": "Divide", "AssignModulo": "Modulo",
           "AssignPow": "Pow", "AssignLShift": "LShift", "AssignRShift": "RShift", "AssignBitwiseAnd": "BitwiseAnd",
           "AssignBitwiseOr": "BitwiseOr", "AssignXor": "Xor"}
MODULE_OF = {"LShift": "lshift", "RShift": "rshift"}


def arm_callees(lib, b, tgt):
    """callees of an arm incl. fn items passed as values, the callees of closures created in the arm and of the private
    helper functions of the dispatcher's own module it mentions (a closure turned into a named function is the same code)"""
    region = set(arm_region(b, tgt))
    out = set()
    for c in b.calls:
        if c.bb in region and c.callee:
            out.add(c.callee)
    for bb, name, _, _ in b.fn_operands():
        if bb in region:
            out.add(name)
    mod = b.id.rsplit("::", 1)[0] if not b.id.startswith("<") else None
    work = list(out)
    depth = {n: 0 for n in work}
    while work:
        n = work.pop()
        hb = lib.body(n)
        if hb is None or depth[n] >= 2:
            continue
        helper = "{closure" in n or (mod is not None and n.rsplit("::", 1)[0] == mod and n != b.id)
        if not helper:
            continue
        for x in [c.callee for c in hb.calls if c.callee] + [x[1] for x in hb.fn_operands()]:
            if x not in out:
                out.add(x)
                depth[x] = depth[n] + 1
                work.append(x)
    return out


def run_assigntyping(ctx):
    res = RuleResult("R-ASSIGNTYPING", "the operator-specific typing functions (X::can_be_used, X::return_type) that type the plain "
                                       "operator X are also the ones that type `X=`")
    lib = ctx.facts.lib
    enum = "bin_operator::BinOperator"
    # typing dispatchers: functions with a switch over BinOperator that are not Exec / Recreate
    plain = {}      # X -> set of op-specific typing callees
    assign = {}     # AssignX -> (body, callees)
    for b in lib.bodies.values():
        if b.name in ("exec", "recreate") or not b.id.startswith(("instruction::bin_op", "<instruction::bin_op")):
            continue
        for sw in enum_switches(b, enum):
            for v, tgt in sw["arms"].items():
                cs = arm_callees(lib, b, tgt)
                if v in BASE_OF:
                    prev = assign.get(v)
                    assign[v] = (b, (prev[1] if prev else set()) | cs)
                else:
                    mod = "::%s::" % MODULE_OF.get(v, _snake(v))
                    spec = {c for c in cs if mod in c and c.rsplit("::", 1)[-1] in ("can_be_used", "return_type")}
                    if spec:
                        plain.setdefault(v, set()).update(spec)
    n = 0
    for av, bv in sorted(BASE_OF.items()):
        if av not in assign:
            res.anchor(False, "admissibility arm of BinOperator::%s" % av)
            continue
        b, cs = assign[av]
        need = plain.get(bv, set())
        n += 1
        key = "assigntyping:%s" % av
        missing = sorted(need - cs)
        if missing:
            res.bad(key, "plain %s is typed with %s but the admissibility of %s does not use %s: the compound assignment accepts / types "
                         "operands differently from the operator it abbreviates (a value the cell's type does not admit can be stored)"
                    % (bv, ", ".join(sorted(need)), av, ", ".join(missing)), b.where())
        else:
            res.ok(key, b.where(), "uses %s" % (", ".join(sorted(need)) or "no operator-specific typing function (none for plain %s either)" % bv))
    res.floor(n, 11, "compound_assignments")
    res.floor(sum(1 for v in plain.values() if v), 1, "operators_with_specific_typing")
    return res


# ---------------------------------------------------------------- R-PRATTONLY
def run_prattonly(ctx):
    res = RuleResult("R-PRATTONLY", "prefix, postfix and infix operations are built only by the closures given to PRATT_PARSER: no other "
                                    "code decides how operators group")
    lib = ctx.facts.lib
    ne = lib.body("instruction::InstructionWithStr::new_expression")
    if not res.anchor(ne is not None, "InstructionWithStr::new_expression"):
        return res
    # closures handed to map_prefix / map_postfix / map_infix, and the builders they call
    maps = {}
    for c in ne.calls:
        last = c.path.rsplit("::", 1)[-1]
        if last in ("map_prefix", "map_postfix", "map_infix", "map_primary"):
            for a in c.args:
                l = op_local(a)
                d = single_def(ne, l) if l is not None else None
                if d and d[1] == "assign" and d[2]["rv"].get("agg") == "closure":
                    maps[last] = d[2]["rv"]["closure"]
    for k in ("map_prefix", "map_postfix", "map_infix"):
        res.anchor(k in maps, "closure given to PrattParser::%s in new_expression" % k)
    if len(maps) < 3:
        return res
    res.anchor(any(c.path.endswith("PrattParserMap<'pratt, 'a, 'i, R, F, T>::parse") or c.path.rsplit("::", 1)[-1] == "parse" for c in ne.calls),
               "new_expression runs the Pratt parser")
    builders = {}
    for k in ("map_prefix", "map_postfix", "map_infix"):
        cb = lib.body(maps[k])
        if cb is None:
            res.anchor(False, "body of the %s closure" % k)
            continue
        for c in cb.calls:
            if c.callee.startswith("instruction::") and lib.body(c.callee) is not None:
                builders[c.callee] = k
    res.floor(len(builders), 3, "operator_builders")
    allowed = set(maps.values())
    for bid, k in sorted(builders.items()):
        key = "prattonly:%s" % bid
        others = sorted({b.id for b in lib.bodies.values() for c in b.calls if c.callee == bid and b.id not in allowed} |
                        {b.id for b in lib.bodies.values() for x in b.fn_operands() if x[1] == bid and b.id not in allowed})
        if others:
            res.bad(key, "%s (what PRATT_PARSER's %s closure builds) is also called from %s: that code applies operators in an order of its "
                         "own instead of the documented precedence table" % (bid, k, ", ".join(others)), lib.body(others[0]).where())
        else:
            res.ok(key, ne.where(), "called only from the %s closure" % k)
    return res


# ---------------------------------------------------------------- R-VALUEARM
COVERS = "instruction::control_flow::match_arm::MatchArm::covers"
EQ = "<variable::Variable as std::cmp::PartialEq>::eq"


def run_valuearm(ctx):
    res = RuleResult("R-VALUEARM", "a value arm of `match` is selected exactly when a candidate == the matched value: between evaluating a "
                                   "candidate and the decision nothing but Variable::eq is consulted")
    lib = ctx.facts.lib
    b = lib.body(COVERS)
    if not res.anchor(b is not None, COVERS):
        return res
    sws = enum_switches(b, "instruction::control_flow::match_arm::MatchArm")
    if not res.anchor(bool(sws) and "Value" in sws[0]["arms"], "match on MatchArm with a Value arm in covers"):
        return res
    region = arm_region(b, sws[0]["arms"]["Value"])
    cs = calls_in(b, region)
    eqs = [c for c in cs if c.callee == EQ]
    if not eqs:
        # the candidate loop was moved into a helper that belongs to covers alone: judge that helper's body
        called = {c.callee for c in cs}
        for hb in for_crate(lib).cluster(COVERS):
            if hb is not b and hb.id in called and any(c.callee == EQ for c in hb.calls):
                b = hb
                region = list(range(len(hb.blocks)))
                cs = list(hb.calls)
                eqs = [c for c in cs if c.callee == EQ]
                break
    key = "valuearm:decision"
    if not eqs:
        res.bad(key, "the value arm of MatchArm::covers does not compare a candidate with the matched value by Variable::eq", b.where())
        return res
    # every two-way decision in the arm is on: the result of eq, a `?` (Try::branch), the loop's Option from next()
    deciders = set()
    for bb in region:
        t = b.blocks[bb]["term"]
        if t["k"] != "switch":
            continue
        l = op_local(t["discr"])
        src = None
        for st in b.blocks[bb]["stmts"]:
            if st["k"] == "assign" and st["place"]["l"] == l and st["rv"]["k"] == "discr":
                src = st["rv"]["place"]["l"]
        cur = src if src is not None else l
        for _ in range(6):
            d = single_def(b, cur)
            if d is None:
                break
            if d[1] == "call":
                deciders.add((d[2]["func"].get("fn", {}).get("resolved") or d[2]["func"].get("fn", {}).get("path", ""), bb))
                break
            rv = d[2]["rv"]
            if rv["k"] in ("use", "cast"):
                cur = op_local(rv["o"])
            elif rv["k"] in ("ref", "copyderef"):
                cur = rv["place"]["l"]
            else:
                break
            if cur is None:
                break
    allowed = (EQ, "std::ops::Try>::branch", "Iterator>::next", "std::iter::Iterator::next")
    extra = sorted({c for c, _ in deciders if not any(c == a or c.endswith(a) for a in allowed)})
    if extra:
        res.bad(key, "the value arm of MatchArm::covers also decides on %s: a candidate equal to the matched value (== by content) can be "
                     "passed over, so `match` and `==` disagree" % ", ".join(extra), b.where(eqs[0].line))
    else:
        res.ok(key, b.where(eqs[0].line), "decisions in the value arm: %s" % sorted({c for c, _ in deciders}))
    return res


# ---------------------------------------------------------------- R-ITERFOLD
def run_iterfold(ctx):
    res = RuleResult("R-ITERFOLD", "folding (Recreate::recreate, create_from_instruction*) never reaches code that creates an iterator, pulls "
                                   "one or reduces one: an iterator is a cursor, evaluating it once at fold time shares / drains it")
    lib = ctx.facts.lib
    from . import iterops
    from .. import snippets
    try:
        sn = snippets.load(ctx)
    except Exception as e:
        res.broken.append("embedded fragments cannot be read: %s" % e)
        return res
    targets = {}
    for s in sn:
        if not s["static"]:
            continue
        for u, c in iterops.wrapper_users(lib, s["static"]):
            if u.name in ("exec",) or u.id.endswith("::exec"):
                targets[u.id] = "runs the embedded fragment %s" % s["static"].rsplit("::", 1)[-1]
    for b in lib.bodies.values():
        if any(c.callee == iterops.PULLFN for c in b.calls) and (b.id.endswith("::exec") or b.name == "exec") and b.id != "function::Function::exec":
            try:
                if iterops.judge_body(b):
                    targets[b.id] = "pulls an iterator in a loop"
            except Exception:
                pass
    res.floor(len(targets), 6, "iterator_kernels")
    roots = [b.id for b in lib.bodies.values() if (b.impl_trait == "instruction::Recreate" and b.name == "recreate") or
             ("::create_from_instruction" in b.id and "{closure" not in b.id) or b.id.endswith("::recreate")]
    res.floor(len(roots), 40, "fold_roots")

    def cut_edge(u, v):
        return v.endswith("::__static_ref_initialize") or v.endswith(" as lazy_static::LazyStatic>::initialize")
    for r in sorted(set(roots)):
        reach = lib.reach([r], cut_edge=cut_edge)
        hit = sorted(t for t in targets if t in reach)
        key = "iterfold:%s" % r
        if hit:
            ch = lib.chain(reach, hit[0])
            b = lib.body(r)
            res.bad(key, "folding code %s reaches %s (%s): %s - the iterator is created / consumed once while folding instead of at every "
                         "evaluation" % (r, hit[0], targets[hit[0]], " -> ".join(ch)), b.where() if b else "")
        else:
            res.ok(key, "", "")
    return res


# ---------------------------------------------------------------- R-CELLMEMBER
def run_cellmember(ctx):
    res = RuleResult("R-CELLMEMBER", "an assignment through a union of cell types is admitted member by member: the content type the "
                                     "stored value must fit is never the union of the members' content types")
    lib = ctx.facts.lib
    own = for_crate(lib)
    fid = "instruction::bin_op::assign::can_be_used"
    b = lib.body(fid)
    if not res.anchor(b is not None, fid):
        return res
    q = T + "mut_element_type"
    key = "cellmember:assign::can_be_used"
    whole = []
    for c in b.calls:
        if c.callee != q:
            continue
        # receiver: a reference to the lhs parameter itself
        l = op_local(c.args[0])
        d = single_def(b, l) if l is not None else None
        if d and d[1] == "assign" and d[2]["rv"]["k"] == "ref" and d[2]["rv"]["place"]["l"] == 1 and not d[2]["rv"]["place"]["p"]:
            whole.append(c)
    members = [hb for hb in own.members(fid)]
    per_member = any(c.callee == q for hb in members if hb is not b for c in hb.calls) and \
        any(c.callee.endswith("MultiType::iter") or c.path.endswith("MultiType::iter") for hb in members for c in hb.calls)
    if whole:
        res.bad(key, "assign::can_be_used asks mut_element_type of the whole target type: for `mut A | mut B` that is A | B, so a value that "
                     "fits only one of the cells is admitted for both (a `mut int` cell ends up holding a float)", b.where(whole[0].line))
    elif per_member:
        res.ok(key, b.where(), "iterates the members of a union target and tests each cell type")
    else:
        res.broken.append("assign::can_be_used: neither a whole-type nor a per-member content test found")
    return res
