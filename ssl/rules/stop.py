"""R-STOP: who may raise and who may catch a control signal (ExecStop), and the in_loop discipline."""
from ..engine import RuleResult
from ..model import aggregates, enum_switches, arm_region, calls_in, is_panic_call, op_local

STOP = "instruction::ExecStop"
INS = "instruction::Instruction"
LV = "instruction::local_variable::LocalVariables"

CONSTRUCT = {   # variant -> bodies allowed to build it (reason)
    "Break": {"<instruction::Instruction as instruction::Exec>::exec": "executing Instruction::Break"},
    "Continue": {"<instruction::Instruction as instruction::Exec>::exec": "executing Instruction::Continue"},
    "Return": {"<instruction::unary_operation::UnaryOperation as instruction::Exec>::exec": "UnaryOperator::Return"},
    "Error": {"<instruction::ExecStop as std::convert::From<errors::exec_error::ExecError>>::from": "the `?` conversion"},
}
LOOP_EXEC = "<instruction::r#loop::Loop as instruction::Exec>::exec"
FN_EXEC = "function::Function::exec"
TOP_EXEC = "code::Code::exec_unscoped"
CATCH = {LOOP_EXEC: "innermost loop catches Break/Continue", FN_EXEC: "innermost function catches Return",
         TOP_EXEC: "top level converts Error"}
# who may build the Break/Continue *instructions* (placement is then guarded by in_loop, see R-GUARD)
INS_BREAK = {"instruction::Instruction::new", "instruction::r#loop::r#for::create_instruction",
             "instruction::r#loop::r#while::create_instruction", "instruction::r#loop::while_set::create_instruction",
             "<instruction::Instruction as std::clone::Clone>::clone"}
INS_CONTINUE = {"instruction::Instruction::new", "<instruction::Instruction as std::clone::Clone>::clone"}
LOOP_CREATORS = {"instruction::r#loop::Loop::create_instruction", "instruction::r#loop::r#while::create_instruction",
                 "instruction::r#loop::while_set::create_instruction", "instruction::r#loop::r#for::create_instruction"}
LV_INIT = {   # LocalVariables { in_loop: .. } aggregates: body -> expected in_loop operand
    "instruction::local_variable::LocalVariables::<'a>::new": "false",
    "instruction::local_variable::LocalVariables::<'a>::from_params": "false",
    "instruction::local_variable::LocalVariables::<'a>::function_layer": "false",
    "instruction::local_variable::LocalVariables::<'a>::create_layer": "inherit",
    # a copy of the same scope (D28 fix: Code::parse folds a statement against the scope as it was before the statement)
    "instruction::local_variable::LocalVariables::<'a>::fork": "inherit",
}


def _from_fresh_scope(b, o, depth=0):
    """operand o is the `in_loop` field of a value returned by a constructor whose own in_loop is the constant false (`..Self::new(i)`)"""
    if not isinstance(o, dict) or o.get("l") is None or depth > 4:
        return False
    fields = [p.get("name") for p in o.get("p", []) if p.get("k") == "field"]
    if fields == ["in_loop"]:
        return any(k == "call" and ((d["func"].get("fn") or {}).get("resolved") or (d["func"].get("fn") or {}).get("path")) in
                   [f for f, w in LV_INIT.items() if w == "false"] for _, k, d in b.def_sites(o["l"]))
    if not fields:
        for _, k, d in b.def_sites(o["l"]):
            if k == "assign" and d["rv"]["k"] == "use" and _from_fresh_scope(b, d["rv"]["o"], depth + 1):
                return True
    return False


def _reads_in_loop(b, l, depth):
    """local `l` holds (a copy of) a value read from a LocalVariables.in_loop field"""
    if l is None or depth > 4:
        return False
    for d in b.def_sites(l):
        if d[1] != "assign" or d[2]["rv"]["k"] != "use":
            continue
        o = d[2]["rv"]["o"]
        if o.get("k") not in ("copy", "move"):
            continue
        if o.get("p"):
            if o["p"][-1].get("name") == "in_loop":
                return True
        elif _reads_in_loop(b, o["l"], depth + 1):
            return True
    return False


def run(ctx):
    res = RuleResult("R-STOP", "ExecStop variants are constructed only at their source, inspected only by Loop::exec / "
                               "Function::exec / Code::exec_unscoped with the documented routing; in_loop is set only by loop "
                               "constructors and restored; fresh scopes start with in_loop=false")
    lib = ctx.facts.lib
    if not res.anchor(STOP in lib.adts, "enum " + STOP):
        return res
    variants = [v["name"] for v in lib.adts[STOP]["variants"]]
    for v in variants:
        if v not in CONSTRUCT:
            res.bad("variant:" + v, "ExecStop has a variant `%s` the control-flow table does not know" % v, "src/instruction.rs")
    # --- constructs
    found = {v: set() for v in variants}
    catches = {}
    from ..owners import for_crate
    own = for_crate(lib)

    def owned_by(bid, allowed):
        """every reviewed function this body is attributed to is in `allowed` (helpers extracted from them count)"""
        os_ = own.of(bid)
        return bool(os_) and all(o in allowed for o in os_)
    for b in lib.bodies.values():
        for _, s in aggregates(b, STOP):
            found[s["rv"]["variant"]].update(own.of(b.id))
            key = "construct:%s:%s" % (s["rv"]["variant"], b.id)
            if owned_by(b.id, CONSTRUCT.get(s["rv"]["variant"], {})):
                res.ok(key, b.where(s.get("line")))
            elif b.impl_trait == "std::clone::Clone" or b.impl_trait == "std::fmt::Debug":
                res.ok(key, b.where(s.get("line")), "derive")
            else:
                res.bad(key, "ExecStop::%s is raised in %s; it may only originate in %s"
                        % (s["rv"]["variant"], b.id, ", ".join(CONSTRUCT.get(s["rv"]["variant"], {"?": 0}))), b.where(s.get("line")))
        sws = enum_switches(b, STOP)
        if sws:
            catches[b.id] = sws
    for v, allowed in CONSTRUCT.items():
        for a in allowed:
            res.anchor(a in found.get(v, ()), "ExecStop::%s is no longer constructed in %s" % (v, a))
    # --- catches
    for bid, sws in catches.items():
        b = lib.bodies[bid]
        key = "catch:" + bid
        if owned_by(bid, CATCH):
            res.ok(key, b.where(), "; ".join(CATCH[o] for o in own.of(bid)))
        elif b.impl_trait in ("std::fmt::Debug", "std::clone::Clone"):
            res.ok(key, b.where(), "derive")
        else:
            res.bad(key, "%s inspects an ExecStop value: a control signal can be intercepted before it reaches its innermost "
                         "loop / function (catch sites are %s)" % (bid, ", ".join(sorted(CATCH))), b.where(sws[0].get("line")))
    caught_owners = set()
    for bid in catches:
        caught_owners |= set(own.of(bid))
    for bid in CATCH:
        res.anchor(bid in caught_owners, "catch site %s no longer matches on ExecStop" % bid)

    def catch_body(anchor):
        """the body (the anchor itself or a helper extracted from it) that holds the match on ExecStop"""
        for bid2 in catches:
            if own.of(bid2) == frozenset({anchor}):
                return lib.bodies[bid2], catches[bid2]
        return None, None

    # --- routing in Loop::exec
    b, sws_ = catch_body(LOOP_EXEC)
    if b is not None and b.id == LOOP_EXEC:
        sw = sws_[0]
        body_calls = [c for c in b.calls if c.path == "instruction::Exec::exec"]
        if res.anchor(len(body_calls) == 1, "Loop::exec calls the body's exec exactly once per iteration"):
            hdr = body_calls[0].bb
            brk = sw["arms"].get("Break")
            cont = sw["arms"].get("Continue")
            if brk is None:
                res.bad("route:Loop:Break", "Loop::exec has no arm for ExecStop::Break", b.where())
            elif hdr in b.reachable(brk):
                res.bad("route:Loop:Break", "after ExecStop::Break the loop body can run again (break does not leave the loop)", b.where())
            elif any(a for bb, a in aggregates(b, STOP) if bb in b.reachable(brk)):
                res.bad("route:Loop:Break", "Break arm raises another signal", b.where())
            else:
                res.ok("route:Loop:Break", b.where(), "Break -> exit, body unreachable afterwards")
            if cont is None:
                res.bad("route:Loop:Continue", "Loop::exec has no arm for ExecStop::Continue", b.where())
            elif hdr not in b.reachable(cont):
                res.bad("route:Loop:Continue", "after ExecStop::Continue the next iteration is not reached", b.where())
            else:
                res.ok("route:Loop:Continue", b.where(), "Continue -> next iteration")
            # everything else must leave the loop unchanged: otherwise-arm reaches return, not the header, no panic
            other = sw["otherwise"]
            reach = b.reachable(other)
            bad = None
            if set(sw["rest"]) != {"Return", "Error"}:
                bad = "signals %s are not passed on" % sorted(set(["Return", "Error"]) - set(sw["rest"]))
            elif hdr in reach:
                bad = "a Return/Error signal lets the loop continue"
            elif any(is_panic_call(c) for c in calls_in(b, reach)):
                bad = "a Return/Error signal panics in Loop::exec"
            elif not any(s["place"]["l"] == 0 and s["rv"]["k"] == "use" for i, s in b.assigns() if i in reach):
                bad = "the Return/Error signal is not returned unchanged"
            if bad:
                res.bad("route:Loop:pass", bad, b.where())
            else:
                res.ok("route:Loop:pass", b.where(), "Return/Error leave the loop unchanged")
            # Ok(_) continues
    # --- routing in Function::exec
    b, sws_ = catch_body(FN_EXEC)
    if b is not None:
        sw = sws_[0]
        for var, want in (("Return", "Ok"), ("Error", "Err")):
            t = sw["arms"].get(var)
            key = "route:Function:%s" % var
            if t is None:
                res.bad(key, "Function::exec has no arm for ExecStop::%s" % var, b.where())
                continue
            reg = set(arm_region(b, t))
            built = [s["rv"]["variant"] for i, s in b.assigns() if i in reg and s["rv"]["k"] == "agg" and s["rv"].get("adt") == "std::result::Result"]
            if built != [want]:
                res.bad(key, "ExecStop::%s must become %s(..) in Function::exec, found %s" % (var, want, built), b.where())
            elif any(is_panic_call(c) for c in calls_in(b, reg)):
                res.bad(key, "ExecStop::%s panics in Function::exec" % var, b.where())
            else:
                res.ok(key, b.where(), "%s -> %s" % (var, want))
        # the interpreter.exec call whose result is matched: the only Exec entry
    b, sws_ = catch_body(TOP_EXEC)
    if b is not None:
        ok = all("Error" in sw["arms"] for sw in sws_)
        if ok:
            res.ok("route:Code:Error", b.where())
        else:
            res.bad("route:Code:Error", "Code::exec_unscoped no longer converts ExecStop::Error into Err", b.where())

    # --- Break/Continue instructions: who builds them
    for b in lib.bodies.values():
        for _, s in aggregates(b, INS):
            v = s["rv"]["variant"]
            if v not in ("Break", "Continue"):
                continue
            allowed = INS_BREAK if v == "Break" else INS_CONTINUE
            key = "ins:%s:%s" % (v, b.id)
            if owned_by(b.id, allowed):
                res.ok(key, b.where(s.get("line")))
            else:
                res.bad(key, "Instruction::%s is built in %s, outside the guarded constructor and the loop desugarings" % (v, b.id),
                        b.where(s.get("line")))
    # sugared loops wrap their Break in a Loop
    for bid in sorted(INS_BREAK - {"instruction::Instruction::new", "<instruction::Instruction as std::clone::Clone>::clone"}):
        b = lib.body(bid)
        if not res.anchor(b is not None, bid):
            continue
        has_break = any(s["rv"]["variant"] == "Break" for _, s in aggregates(b, INS))
        wraps = any(c.callee.endswith("From<instruction::r#loop::Loop>>::from") or "r#loop::Loop" in c.full for c in b.calls) or \
            any(True for _ in aggregates(b, "instruction::r#loop::Loop"))
        key = "sugar:%s" % bid
        if has_break and wraps:
            res.ok(key, b.where(), "Break is emitted inside a Loop built by the same function")
        elif has_break:
            res.bad(key, "%s emits Instruction::Break without wrapping it in a Loop" % bid, b.where())

    # --- in_loop discipline
    writes = {}
    for b in lib.bodies.values():
        for i, s in b.assigns():
            pl = s["place"]
            if pl["p"] and pl["p"][-1]["k"] == "field" and pl["p"][-1].get("name") == "in_loop" and pl["p"][-1].get("owner", "").startswith(LV):
                writes.setdefault(b.id, []).append((i, s))
    for bid, ws in writes.items():
        b = lib.bodies[bid]
        if bid not in LOOP_CREATORS:
            res.bad("in_loop:writer:" + bid, "%s assigns LocalVariables.in_loop; only the loop constructors may" % bid, b.where(ws[0][1].get("line")))
            continue
        sets_true = [(i, s) for i, s in ws if s["rv"]["k"] == "use" and s["rv"]["o"].get("k") == "const" and s["rv"]["o"].get("val") == "true"]
        restores = [(i, s) for i, s in ws if s["rv"]["k"] == "use" and s["rv"]["o"].get("k") in ("copy", "move")]
        others = [s for i, s in ws if (i, s) not in sets_true and (i, s) not in restores]
        key = "in_loop:" + bid
        if others:
            res.bad(key, "unexpected value written to in_loop in %s" % bid, b.where(others[0].get("line")))
            continue
        through_ref = [(i, s) for i, s in sets_true if any(e["k"] == "deref" for e in s["place"]["p"])]
        if through_ref:
            # the caller's scope is modified: the saved value must be written back after the body was created
            good = False
            for i, s in restores:
                src = op_local(s["rv"]["o"])
                saved = _reads_in_loop(b, src, 0)
                if saved and all(i in b.reachable(j) for j, _ in through_ref):
                    good = True
            if good:
                # ... on every way to a success value (an error aborts the parse: nothing is checked against the scope any more)
                from .guard import success_blocks
                restore_bbs = [i for i, s in restores if _reads_in_loop(b, op_local(s["rv"]["o"]), 0)]
                succ_bbs = success_blocks(b) or b.return_blocks()
                leaks = []
                for j, _ in through_ref:
                    reach = b.reachable_after(j, avoid=restore_bbs) | ({j} if j not in restore_bbs else set())
                    # a restore in the same block as the success value counts when it comes first; blocks are atomic here
                    leaks += [x for x in succ_bbs if x in reach and x not in restore_bbs]
                if leaks:
                    good = False
                    res.bad(key, "%s sets in_loop=true on the caller's scope and can return successfully without restoring the saved value "
                                 "(some path skips the restore): code after the loop is then checked as if inside it and a stray "
                                 "break / continue is accepted" % bid, b.where(b.blocks[leaks[0]]["term"].get("line")))
                    continue
            if good:
                res.ok(key, b.where(), "in_loop=true around the body, saved value restored on every successful path")
            else:
                res.bad(key, "%s sets in_loop=true on the caller's scope and does not restore the saved value: code after the "
                             "loop is checked as if inside it (break/continue accepted outside a loop)" % bid, b.where(through_ref[0][1].get("line")))
        elif sets_true:
            res.ok(key, b.where(), "in_loop=true on a scope created for the loop")
        else:
            res.bad(key, "%s no longer sets in_loop" % bid, b.where())
    for bid in LOOP_CREATORS:
        res.anchor(bid in writes, "%s sets in_loop" % bid)
    # only the loop BODY is created while in_loop is true: the condition / the iterator expression of the loop is evaluated
    # outside the loop the construct generates, so a break / continue written there must be rejected
    CREATE = ("instruction::InstructionWithStr::new", "instruction::InstructionWithStr::new_expression", "instruction::Instruction::new")
    # (`while` / `while x: T = e` evaluate their condition inside the loop they generate, so a break written there is caught by
    # that loop; `for` evaluates its iterator expression before the loop)
    for bid in sorted(x for x in LOOP_CREATORS if x.endswith("r#for::create_instruction") or x.endswith("Loop::create_instruction")):
        b = lib.body(bid)
        if b is None or bid not in writes:
            continue
        sets = [i for i, s in writes[bid] if s["rv"]["k"] == "use" and s["rv"]["o"].get("k") == "const" and s["rv"]["o"].get("val") == "true"]
        if not sets:
            continue
        after = set()
        for i in sets:
            after |= b.reachable_after(i) | {i}
        created = [c for c in b.calls if c.callee in CREATE and c.bb in after]
        key = "in_loop:body-only:" + bid
        if len(created) == 1:
            res.ok(key, b.where(created[0].line), "exactly the body is created with in_loop = true")
        else:
            res.bad(key, "%s creates %d sub-programs after setting in_loop = true; only the loop body belongs inside the loop - a `break` / "
                         "`continue` in the condition or iterator expression would be accepted and then escapes at run time" % (bid, len(created)),
                    b.where(created[0].line if created else None))
    # fresh scopes
    for b in lib.bodies.values():
        for _, s in aggregates(b, LV):
            rv = s["rv"]
            o = rv["ops"][rv["fields"].index("in_loop")]
            want = LV_INIT.get(b.id)
            key = "in_loop:init:" + b.id
            if want is None:
                res.bad(key, "LocalVariables is built in %s, which the scope table does not know" % b.id, b.where(s.get("line")))
            elif want == "false":
                if o.get("k") == "const" and o.get("val") == "false":
                    res.ok(key, b.where(s.get("line")))
                elif _from_fresh_scope(b, o):
                    res.ok(key, b.where(s.get("line")), "taken from a scope just built by a constructor that starts with in_loop = false (struct update)")
                else:
                    res.bad(key, "%s must start a scope with in_loop=false (a function body / fresh parse is not inside the "
                                 "caller's loop)" % b.id, b.where(s.get("line")))
            else:
                if o.get("k") in ("copy", "move"):
                    res.ok(key, b.where(s.get("line")), "inherits")
                else:
                    res.bad(key, "create_layer must inherit in_loop from the enclosing scope", b.where(s.get("line")))
    res.floor(len(res.instances), 30, "stop_instances")
    return res
