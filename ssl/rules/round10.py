"""Rules added after the tenth round of independent seeded changes (feature additions).

R-RETKIND   an operator that the checker types with a constant type (bool for comparisons, int for shifts and %) has a
            kernel that builds only values of that kind."""
import re

from ..engine import RuleResult
from ..model import enum_switches, arm_region, calls_in, aggregates
from .hashorder import load_table
from .export import conversion_kinds

BINOP = "bin_operator::BinOperator"
BRET = "<instruction::bin_op::BinOperation as variable::r#type::ReturnType>::return_type"
VAR = "variable::Variable"
TYPE = "variable::r#type::Type"


def produced_kinds(lib, fid):
    """Variable kinds the kernel can build itself (aggregates, constants, From conversions); None if it cannot be read"""
    b = lib.body(fid)
    if b is None:
        return None
    kinds = set()
    for bb in [b] + lib.closures_of(b.id):
        for _, s in aggregates(bb, VAR):
            kinds.add(s["rv"]["variant"])
        for _, s in bb.assigns():
            o = s["rv"].get("o")
            if isinstance(o, dict) and o.get("k") == "const" and o.get("ty") == VAR:
                kinds.add((o.get("val") or "").rsplit("::", 1)[-1])
        for c in bb.calls:
            if c.term.get("dest_ty") != VAR:
                continue
            full = c.full
            m = re.match(r"<(.*) as std::convert::Into<variable::Variable>>::into$", full)
            if m:
                full = "<variable::Variable as std::convert::From<%s>>::from" % m.group(1)
            if full.startswith("<variable::Variable as std::convert::From<"):
                sub = conversion_kinds(lib, full)
                if sub is None:
                    return None
                kinds |= sub
            elif c.callee.startswith(("std::", "core::", "alloc::", "<")) and c.callee.rsplit("::", 1)[-1] in ("clone", "unwrap", "expect", "into_inner"):
                continue
            else:
                sub = produced_kinds(lib, c.callee) if lib.body(c.callee) is not None and c.callee != fid else None
                if sub is None:
                    return None
                kinds |= sub
    return kinds


def run_retkind(ctx):
    res = RuleResult("R-RETKIND", "a binary operator whose static type is a constant (bool / int arm of BinOperation::return_type) is "
                                  "executed and folded by a kernel that builds only values of that kind")
    lib = ctx.facts.lib
    b = lib.body(BRET)
    table = load_table("kernels.tsv")
    if not res.anchor(b is not None, BRET) or not res.anchor(bool(table), "tables/kernels.tsv"):
        return res
    n = 0
    for sw in enum_switches(b, BINOP):
        for var, tgt in sorted(sw["arms"].items()):
            region = arm_region(b, tgt)
            if list(calls_in(b, region)):
                continue
            consts = {s["rv"]["variant"] for bb in region for s in b.blocks[bb]["stmts"]
                      if s["k"] == "assign" and s["place"]["l"] == 0 and s["rv"]["k"] == "agg" and s["rv"].get("adt") == TYPE}
            consts |= {(s["rv"]["o"].get("val") or "").rsplit("::", 1)[-1] for bb in region for s in b.blocks[bb]["stmts"]
                       if s["k"] == "assign" and s["place"]["l"] == 0 and s["rv"]["k"] == "use" and s["rv"]["o"].get("k") == "const"
                       and s["rv"]["o"].get("ty") == TYPE}
            consts &= {"Int", "Bool", "Float", "String", "Void"}
            if len(consts) != 1:
                continue
            want = next(iter(consts))
            row = table.get("%s|run" % var)
            if row is None:
                continue
            n += 1
            key = "retkind:%s" % var
            kinds = produced_kinds(lib, row[0])
            if kinds is None:
                res.bad(key, "cannot read which kinds of value %s (kernel of %s) builds" % (row[0], var), b.where())
            elif kinds <= {want}:
                res.ok(key, b.where(), "%s builds %s only" % (row[0], want))
            else:
                res.bad(key, "BinOperator::%s is typed %s but its kernel %s can build %s: the checker then accepts programs in which a "
                             "%s flows where an %s is required (failed downcast when folded or run)"
                        % (var, want.lower(), row[0], sorted(kinds - {want}), sorted(kinds - {want})[0].lower(), want.lower()), b.where())
    res.floor(n, 8, "constant_typed_operators")
    return res


NUMERIC_TYS = ("i64", "f64", "bool", "u32", "u64", "&i64", "&f64")


def numeric_prims(lib, own, fid):
    """the numeric primitives a kernel (with its private helpers and closures) applies to int / float / bool operands"""
    prims = set()
    mod = fid.rsplit("::", 1)[0] + "::"
    bodies = {hb.id: hb for hb in own.members(fid)}
    work = list(bodies.values())
    while work:         # private functions of the kernel's own module that it calls (e.g. pow::wrapping_pow)
        hb = work.pop()
        for c in hb.calls:
            cb = lib.body(c.callee)
            if cb is not None and c.callee.startswith(mod) and c.callee not in bodies and not c.callee.endswith("::create_from_instructions"):
                bodies[c.callee] = cb
                work.append(cb)
                work.extend(x for x in lib.closures_of(c.callee) if x.id not in bodies)
    for hb in bodies.values():
        for _, s in hb.assigns():
            rv = s["rv"]
            if rv["k"] not in ("binop", "checked_binop", "unop"):
                continue
            tys = []
            for k in ("a", "b", "o"):
                o = rv.get(k)
                if isinstance(o, dict):
                    if o.get("k") == "const":
                        tys.append(o.get("ty"))
                    elif "l" in o and not o.get("p"):
                        tys.append(hb.local_ty(o["l"]))
                    else:
                        tys.append((o.get("p") or [{}])[-1].get("ty", "?"))
            if tys and all(t in NUMERIC_TYS for t in tys):
                prims.add("%s(%s)" % (rv.get("op"), ",".join(tys)))
        for c in hb.calls:
            n = c.callee
            if n.startswith(("core::num::<impl i64>::", "std::f64::<impl f64>::", "core::f64::<impl f64>::", "core::num::<impl u32>::",
                             "core::num::<impl u64>::", "<&i64 as std::ops::", "<i64 as std::ops::", "<f64 as std::ops::",
                             "<i64 as std::cmp::", "<f64 as std::cmp::", "core::f64::<impl f64>::total_cmp", "std::cmp::")):
                prims.add("call " + n)
    return prims


def run_prims(ctx):
    res = RuleResult("R-PRIMS", "each numeric operator kernel applies exactly the reviewed primitive operations to int, float and bool "
                                "operands (tables/kernel_prims.tsv: wrapping_* for ints, the IEEE operators of f64, signed machine "
                                "comparisons, bitwise operators): another primitive - saturating / checked arithmetic, total_cmp, an "
                                "unsigned comparison - changes results for operands no test samples")
    lib = ctx.facts.lib
    from ..owners import for_crate
    own = for_crate(lib)
    table = load_table("kernel_prims.tsv")
    kernels = load_table("kernels.tsv")
    if not res.anchor(bool(table), "tables/kernel_prims.tsv"):
        return res
    for fid, row in sorted(table.items()):
        want = set(x.strip() for x in row[0].split(";") if x.strip())
        key = "prims:%s" % fid
        if not res.anchor(lib.body(fid) is not None, fid):
            continue
        got = numeric_prims(lib, own, fid)
        if got == want:
            res.ok(key, lib.body(fid).where(), "; ".join(sorted(got)))
        else:
            extra, missing = sorted(got - want), sorted(want - got)
            res.bad(key, "%s applies %s%s to its numeric operands; the reviewed set is {%s}" %
                    (fid, ("new primitive(s) " + ", ".join(extra)) if extra else "",
                     ((" and " if extra else "") + "no longer " + ", ".join(missing)) if missing else "", "; ".join(sorted(want))),
                    lib.body(fid).where())
    # every numeric kernel of the kernel table has a row
    numeric = {r[0] for k, r in kernels.items() if k.endswith("|run") and numeric_prims(lib, own, r[0]) and ".exec" not in k
               and r[0].startswith(("instruction::bin_op::math", "instruction::bin_op::bitwise", "instruction::bin_op::shift", "instruction::prefix_op::not",
                                    "instruction::prefix_op::unary_minus"))}
    res.anchor(numeric <= set(table), "every numeric kernel has a row in kernel_prims.tsv (missing: %s)" % sorted(numeric - set(table)))
    res.floor(len(table), 17, "kernel_rows")
    return res


KEYED = ("insert", "contains", "contains_key", "get", "get_mut", "entry", "remove", "eq", "ne", "cmp", "partial_cmp", "lt", "le", "gt", "ge",
         "binary_search", "starts_with", "ends_with", "find", "position", "dedup", "sort", "sort_unstable", "max", "min")
PASS = ("clone", "as_str", "deref", "as_ref", "borrow", "to_string", "to_owned", "into", "from", "into_boxed_str", "as_bytes", "must_use", "to_lowercase",
        "to_uppercase", "trim")


def rendered_value_uses(lib, b, value_tys):
    """calls in b that use, as a key or comparison operand, a String made by formatting a value of one of value_tys"""
    from ..model import op_local
    from .typeprint import _templates
    tainted = set()
    for bb, line, pieces, tys in _templates_of_body(lib, b):
        if any(t.lstrip("&").startswith(value_tys) for t in tys):
            tainted.add(bb)
    if not tainted:
        return []
    # locals holding fmt::Arguments built from such a template, then the Strings formatted from them
    t = set()
    for c in b.calls:
        if c.callee.endswith("Arguments::<'a>::new") and c.bb in tainted and not c.dest["p"]:
            t.add(c.dest["l"])
    hits = []
    changed = True
    while changed:
        changed = False
        for _, s in b.assigns():
            rv = s["rv"]
            src = None
            if rv["k"] in ("use", "cast"):
                src = op_local(rv["o"])
            elif rv["k"] in ("ref", "copyderef"):
                src = rv["place"]["l"]
            if src in t and s["place"]["l"] not in t and not s["place"]["p"]:
                t.add(s["place"]["l"])
                changed = True
        for c in b.calls:
            args = [op_local(a) for a in c.args]
            if not any(a in t for a in args):
                continue
            last = c.callee.rsplit("::", 1)[-1]
            if c.callee in ("std::fmt::format", "alloc::fmt::format") or last in PASS or last == "format":
                if not c.dest["p"] and c.dest["l"] not in t:
                    t.add(c.dest["l"])
                    changed = True
    for c in b.calls:
        last = c.callee.rsplit("::", 1)[-1]
        if last in KEYED and any(op_local(a) in t for a in c.args) and not c.callee.endswith("Arguments::<'a>::new"):
            hits.append(c)
    return hits


def _templates_of_body(lib, b):
    from .typeprint import _templates

    class One:
        bodies = {b.id: b}
    for hb, line, pieces, tys in _templates(One, ()):
        for c in hb.calls:
            if c.callee.endswith("Arguments::<'a>::new") and c.line == line:
                yield c.bb, line, pieces, tys


def run_renderkey(ctx):
    res = RuleResult("R-RENDERKEY", "the text a value is rendered as (Debug / Display of Variable, Type ...) is never used as a key or compared: "
                                    "structs and unions render their members in hash order, so two equal values can have different texts "
                                    "(and `1.0` / `1` / NaN render differently from how they compare)")
    lib = ctx.facts.lib
    vt = ("variable::Variable", "variable::r#type::Type", "variable::array::Array", "variable::struct_type::StructType",
          "variable::multi_type::MultiType", "std::sync::Arc<variable::", "variable::r#mut::Mut", "function::Function")
    n = 0
    for b in sorted(lib.bodies.values(), key=lambda x: x.id):
        if not any(c.callee.endswith("Arguments::<'a>::new") for c in b.calls):
            continue
        n += 1
        hits = rendered_value_uses(lib, b, vt)
        if hits:
            c = hits[0]
            res.bad("renderkey:%s|%s" % (b.id, c.callee.rsplit("::", 1)[-1]),
                    "%s formats a value and hands the text to %s: texts of equal values can differ (hash order of struct fields and union "
                    "members), so the result depends on the process's hash seed" % (b.id, c.callee), b.where(c.line))
    res.ok("renderkey:scan", "", "%d formatting functions scanned" % n)
    res.floor(n, 30, "formatting_functions")
    fx = ctx.fixtures
    fvt = ("std::collections::HashMap<",)
    pos = [hb for i, hb in fx.bodies.items() if i.startswith("hashorder::dedup_by_text")]
    neg = fx.body("hashorder::render_only")
    res.control(any(rendered_value_uses(fx, hb, fvt) for hb in pos), "hashorder::dedup_by_text is reported")
    res.control(neg is not None and not rendered_value_uses(fx, neg, fvt), "negative control hashorder::render_only accepted")
    return res


INFIX = "instruction::bin_op::<impl instruction::InstructionWithStr>::create_infix"


def _derive(b, roots):
    """locals that hold (part of / a wrapper of) the value of one of the root locals"""
    from ..model import op_local
    t = set(roots)
    changed = True
    while changed:
        changed = False
        for _, s in b.assigns():
            d = s["place"]["l"]
            if d in t:
                continue
            rv = s["rv"]
            src = []
            if rv["k"] in ("use", "cast"):
                src = [op_local(rv["o"])]
            elif rv["k"] in ("ref", "copyderef"):
                src = [rv["place"]["l"]]
            elif rv["k"] == "agg":
                src = [op_local(o) for o in rv["ops"]]
            if any(x in t for x in src):
                t.add(d)
                changed = True
        for c in b.calls:
            if c.dest["p"] or c.dest["l"] in t:
                continue
            last = c.callee.rsplit("::", 1)[-1]
            if last in ("into", "from", "clone", "new", "branch", "unwrap") and any(op_local(a) in t for a in c.args):
                t.add(c.dest["l"])
                changed = True
    return t


def run_operandorder(ctx):
    res = RuleResult("R-OPERANDORDER", "create_infix hands the left operand of an infix operator to the instruction it builds before (left "
                                       "of) the right operand - in every constructor call and in every lhs / rhs field: an operator built "
                                       "with its operands swapped evaluates them right to left")
    lib = ctx.facts.lib
    from ..model import op_local
    b = lib.body(INFIX)
    if not res.anchor(b is not None and b.arg_count == 4 and b.local_ty(2) == "instruction::InstructionWithStr"
                      and b.local_ty(3) == "instruction::InstructionWithStr", INFIX + " (pair, lhs, rhs, scope)"):
        return res
    n = 0
    sites = [(b, {2}, {3})]
    # the Pratt callback |lhs, op, rhs| that calls create_infix
    for cb in lib.bodies.values():
        if "{closure" in cb.id and any(c.callee == INFIX for c in cb.calls) and cb.arg_count == 4:
            sites.append((cb, {2}, {4}))
    res.anchor(len(sites) >= 2, "the map_infix closure that calls create_infix")
    for hb, lroot, rroot in sites:
        dl, dr = _derive(hb, lroot), _derive(hb, rroot)
        both = dl & dr
        dl, dr = dl - both, dr - both
        for c in hb.calls:
            if not c.callee.startswith(("instruction::", "<instruction::")):
                continue
            li = [i for i, a in enumerate(c.args) if op_local(a) in dl]
            ri = [i for i, a in enumerate(c.args) if op_local(a) in dr]
            if not li or not ri:
                continue
            n += 1
            key = "operandorder:%s" % c.callee
            if min(ri) < max(li):
                res.bad(key, "create_infix passes the right operand before the left operand to %s: the instruction it builds evaluates the "
                             "operands of this operator right to left" % c.callee, hb.where(c.line))
            else:
                res.ok(key, hb.where(c.line), "lhs before rhs")
        for _, s in hb.assigns():
            rv = s["rv"]
            if rv["k"] != "agg" or not (rv.get("adt") or "").startswith("instruction::") or "fields" not in rv:
                continue
            f = dict(zip(rv["fields"], rv["ops"]))
            if "lhs" in f and "rhs" in f:
                n += 1
                key = "operandorder:%s{..}" % rv["adt"]
                if op_local(f["lhs"]) in dr or op_local(f["rhs"]) in dl:
                    res.bad(key, "create_infix builds %s with the operands swapped" % rv["adt"], hb.where(s.get("line")))
                else:
                    res.ok(key, hb.where(s.get("line")), "lhs / rhs in place")
    res.floor(n, 3, "operand_pairs")
    return res


def run_ioerr(ctx):
    res = RuleResult("R-IOERR", "no std::io::Error is dropped anywhere in the crate: every io::Result is propagated with `?`, returned, or "
                                "handed to the conversion that turns it into the documented error struct - never `.ok()`, a default, an "
                                "ignoring match, or an iterator adapter that stops at the first error")
    from . import errflow
    lib = ctx.facts.lib
    n = 0
    for verdict, key, msg, where in errflow.analyse(lib, ("std::io::Error",)):
        n += 1
        if verdict == "ok":
            res.ok("ioerr:" + key, where, msg)
        else:
            res.bad("ioerr:" + key, "io::Error " + msg, where)
    res.floor(n, 20, "io_results")
    return res


def run_infixop(ctx):
    res = RuleResult("R-INFIXOP", "the binary operation create_infix builds carries the operator that was parsed: the `op` of every "
                                  "BinOperation it constructs comes from BinOperator::from(rule of the operator token), never from a "
                                  "constant - an expression is not rewritten into another operator while it is created")
    lib = ctx.facts.lib
    from ..owners import for_crate
    from ..model import op_local
    from .variant import _const_variant
    own = for_crate(lib)
    b = lib.body(INFIX)
    if not res.anchor(b is not None, INFIX):
        return res
    n = 0
    for hb in own.members(INFIX):
        conv = {c.dest["l"] for c in hb.calls if c.full.startswith("<bin_operator::BinOperator as std::convert::From<") and not c.dest["p"]}
        good = _derive(hb, conv) if conv else set()
        for _, s in aggregates(hb, "instruction::bin_op::BinOperation"):
            rv = s["rv"]
            o = rv["ops"][rv["fields"].index("op")]
            n += 1
            key = "infixop:%s" % hb.id
            const = _const_variant(hb, o, 0)
            if const is not None or op_local(o) not in good:
                res.bad(key, "%s builds a BinOperation whose operator is %s instead of the parsed one: `a OP b` is rewritten into a "
                             "different operation for some operand shapes (e.g. `(a < b) == c` into a chain), so the operator's own "
                             "semantics no longer apply" % (hb.id, ("the constant " + const) if const else "not the converted token"),
                        hb.where(s.get("line")))
            else:
                res.ok(key, hb.where(s.get("line")), "op = BinOperator::from(rule)")
    res.floor(n, 1, "binoperations_built")
    return res
