"""R-KERNEL: one kernel per operator, on all three routes (run, fold, compound assignment)."""
from ..engine import RuleResult
from ..model import enum_switches, arm_region, calls_in
from .. import tablesrc
from .hashorder import load_table

BINOP = "bin_operator::BinOperator"
UNOP = "unary_operator::UnaryOperator"
BEXEC = "<instruction::bin_op::BinOperation as instruction::Exec>::exec"
BREC = "<instruction::bin_op::BinOperation as instruction::Recreate>::recreate"
UEXEC = "<instruction::unary_operation::UnaryOperation as instruction::Exec>::exec"
UREC = "<instruction::unary_operation::UnaryOperation as instruction::Recreate>::recreate"
ASSIGNS = ("instruction::bin_op::assign::exec", "instruction::bin_op::assign::try_exec")


def returns_operand(fb):
    """lines at which the function returns (a move of) one of its parameters"""
    from ..model import op_local
    t = set(range(1, fb.arg_count + 1))
    ch = True
    while ch:
        ch = False
        for blk in fb.blocks:
            for st in blk["stmts"]:
                if st["k"] != "assign":
                    continue
                d = st["place"]["l"]
                rv = st["rv"]
                if d in t or d == 0:
                    continue
                src = None
                if rv["k"] in ("use", "cast"):
                    src = op_local(rv["o"])
                elif rv["k"] == "agg" and rv.get("agg") == "tuple":
                    src = next((op_local(o) for o in rv["ops"] if op_local(o) in t), None)
                if src in t:
                    t.add(d)
                    ch = True
    hits = []
    for blk in fb.blocks:
        for st in blk["stmts"]:
            if st["k"] == "assign" and st["place"]["l"] == 0:
                rv = st["rv"]
                if rv["k"] == "use" and op_local(rv["o"]) in t:
                    hits.append(st.get("line"))
                if rv["k"] == "agg" and rv.get("variant") in ("Ok", "Some") and any(op_local(o) in t for o in rv["ops"]):
                    hits.append(st.get("line"))
    return hits


def arms(lib, bid, enum):
    b = lib.body(bid)
    out = {}
    if b is None:
        return None, out
    for sw in enum_switches(b, enum):
        for v, t in sw["arms"].items():
            for c in calls_in(b, arm_region(b, t)):
                if c.callee.startswith(("instruction::", "<instruction::")):
                    items = [a["fn"].get("resolved") or a["fn"]["path"] for a in c.args if a.get("k") == "const" and "fn" in a]
                    out.setdefault(v, []).append((c.callee, items, c.line))
    return b, out


def run(ctx):
    res = RuleResult("R-KERNEL", "for every operator the run route, the fold route and the compound-assignment route end in the same "
                                 "kernel function (table tables/kernels.tsv is the reviewed reference)")
    lib = ctx.facts.lib
    table = load_table("kernels.tsv")
    if not res.anchor(bool(table), "tables/kernels.tsv"):
        return res
    try:
        tok = tablesrc.display_strings(lib, BINOP)
    except tablesrc.TableError as e:
        res.anchor(False, str(e))
        return res
    by_tok = {t: v for v, t in tok.items() if t}
    be, ea = arms(lib, BEXEC, BINOP)
    br, ra = arms(lib, BREC, BINOP)
    ue, uea = arms(lib, UEXEC, UNOP)
    ur, ura = arms(lib, UREC, UNOP)
    if not (res.anchor(be is not None, BEXEC) and res.anchor(br is not None, BREC) and res.anchor(ue is not None, UEXEC) and res.anchor(ur is not None, UREC)):
        return res
    n = 0
    for key, row in table.items():
        op, route = key.split("|")
        kernel = row[0]
        enum_arms, rec_arms, bex, brec = (ea, ra, be, br) if not op.startswith("Unary:") else (uea, ura, ue, ur)
        var = op.split(":", 1)[-1]
        k = "kernel:%s|%s" % (op, route)
        n += 1
        if route == "run":
            got = enum_arms.get(var, [])
            callees = [c for c, _, _ in got]
            if kernel in callees and len(set(callees)) == 1:
                res.ok(k, bex.where(got[0][2]), kernel)
            else:
                res.bad(k, "executing %s must call exactly %s; the arm calls %s" % (op, kernel, sorted(set(callees)) or "nothing"), bex.where())
        elif route == "assign":
            got = enum_arms.get(var, [])
            good = [1 for c, items, _ in got if c in ASSIGNS and items == [kernel]]
            # the base operator by token: `X=` -> X
            t = tok.get(var) or ""
            base = by_tok.get(t[:-1]) if t.endswith("=") else None
            base_row = table.get("%s|run" % base) if base else None
            if not good:
                res.bad(k, "compound assignment %s must update the cell with %s; found %s" % (var, kernel, [(c, i) for c, i, _ in got]), bex.where())
            elif base_row is None or base_row[0] != kernel:
                res.bad(k, "compound assignment %s (token %r) uses %s but its base operator %s runs %s" % (var, t, kernel, base, base_row[0] if base_row else "?"), bex.where())
            else:
                res.ok(k, bex.where(got[0][2]), "%s = %s via assign" % (t, kernel))
        elif route == "fold":
            got = rec_arms.get(var, [])
            creators = [c for c, _, _ in got if c.rsplit("::", 1)[-1].startswith("create_from_instruction")]
            mod = kernel.rsplit("::", 1)[0]
            same_mod = [c for c in creators if c.rsplit("::", 1)[0] == mod]
            if not same_mod:
                res.bad(k, "folding %s must go through %s::create_from_instructions; the arm calls %s" % (op, mod, creators or "nothing"), brec.where())
                continue
            reach = lib.reach(same_mod)
            if kernel in reach:
                res.ok(k, brec.where(got[0][2]), "%s reaches %s" % (same_mod[0], kernel))
            else:
                res.bad(k, "the fold path of %s (%s) never evaluates with the run-time kernel %s: folded and executed results can differ"
                        % (op, same_mod[0], kernel), brec.where())
    # the fold function of an operator rebuilds only that operator (or passes an `op` parameter through): a fold that
    # rewrites the expression into another operator changes its meaning for operand values the rewrite did not think of
    from ..model import aggregates
    from .variant import _const_variant
    checked = 0
    for key, row in table.items():
        op, route = key.split("|")
        if route != "run":
            continue
        var = op.split(":", 1)[-1]
        mod = row[0].rsplit("::", 1)[0]
        unary = op.startswith("Unary:")
        for fid, fb in lib.bodies.items():
            if not fid.startswith(mod + "::create_from_instruction"):
                continue
            for adt, is_un in (("instruction::bin_op::BinOperation", False), ("instruction::unary_operation::UnaryOperation", True)):
                for _, st in aggregates(fb, adt):
                    checked += 1
                    rv = st["rv"]
                    o = rv["ops"][rv["fields"].index("op")]
                    v = _const_variant(fb, o, 0)
                    k2 = "kernel:fold-rebuilds:%s|%s" % (op, fid.rsplit("::", 1)[-1])
                    if is_un != unary:
                        res.bad(k2, "the fold function of %s (%s) builds a %s operation: the folded program computes something else than "
                                    "the operator it was written with" % (op, fid, "unary" if is_un else "binary"), fb.where(st.get("line")))
                    elif v is not None and v != var:
                        res.bad(k2, "the fold function of %s (%s) rebuilds the operation with operator %s" % (op, fid, v), fb.where(st.get("line")))
                    else:
                        res.ok(k2, fb.where(st.get("line")), "rebuilds %s" % (v or "the operator it was given"))
    res.stats["fold_rebuilds_checked"] = checked
    # a fold function never answers with one of its operands unchanged: `x + 0`, `x * 1`, `x | 0` ... are not identities on
    # every value of every admitted type (-0.0 + 0.0, arrays, the documented errors of the other operand's kind)
    SHORT_OK = {"instruction::bin_op::logic::and::create_from_instructions": "`true && x` is x: the constant left operand decides (R-FOLDDROP checks what is dropped)",
                "instruction::bin_op::logic::or::create_from_instructions": "`false || x` is x: the constant left operand decides (R-FOLDDROP checks what is dropped)"}
    nshort = 0
    for fid, fb in sorted(lib.bodies.items()):
        if "::create_from_instruction" not in fid or "{closure" in fid:
            continue
        nshort += 1
        lines = returns_operand(fb)
        k3 = "kernel:fold-shortcut:%s" % fid
        if lines and fid not in SHORT_OK:
            res.bad(k3, "%s can return one of its operands unchanged (algebraic shortcut): the folded program skips the operation, so "
                        "it differs from the executed one wherever the shortcut is not an identity (-0.0 + 0.0, array operands, error cases)"
                    % fid, fb.where(lines[0]))
        else:
            res.ok(k3, fb.where(), SHORT_OK.get(fid, "every result is computed by the kernel or rebuilt as the operation"))
    res.floor(nshort, 20, "fold_functions")
    res.floor(n, 60, "kernel_rows")
    # every BinOperator variant executed has a row
    for v in ea:
        if "%s|run" % v not in table and "%s|assign" % v not in table:
            res.bad("kernel:%s|run" % v, "BinOperator::%s is executed but has no reviewed kernel row" % v, be.where())
    return res
