"""R-LAYER: every scoping construct creates its scope at check time, at fold time and at run time, and what runs inside
the construct runs against the new scope (not the enclosing one)."""
from ..engine import RuleResult
from ..model import op_local, aggregates

LV = "instruction::local_variable::LocalVariables::<'a>::"
IN = "interpreter::Interpreter::<'a>::"
P = "<instruction::%s as instruction::%s>::%s"
NEW = "instruction::InstructionWithStr::new"
# (body, scope-creating callee, [callees that must receive the new scope after it], reason)
ROWS = [
    ("instruction::block::Block::create_instruction", LV + "create_layer", [LV + "create_instructions"], "block body checked in its own layer"),
    (P % ("block::Block", "Exec", "exec"), IN + "create_layer", [IN + "exec"], "block body runs in its own layer"),
    (P % ("block::Block", "Recreate", "recreate"), LV + "create_layer", ["instruction::recreate_instructions"], "block body folded in its own layer"),
    ("instruction::control_flow::match_arm::MatchArm::new", LV + "create_layer", [LV + "insert", NEW], "type arm: bound name visible only in the arm"),
    ("instruction::control_flow::match_arm::MatchArm::exec", IN + "create_layer", [IN + "insert", "instruction::Exec::exec"], "type arm at run time"),
    ("instruction::control_flow::match_arm::MatchArm::recreate", LV + "create_layer", [LV + "insert", "instruction::InstructionWithStr::recreate"], "type arm when folding"),
    ("instruction::control_flow::set_if_else::SetIfElse::create", LV + "create_layer", [LV + "insert", NEW], "if-set: bound name visible only in the body"),
    (P % ("control_flow::set_if_else::SetIfElse", "Exec", "exec"), IN + "create_layer", [IN + "insert", "instruction::Exec::exec"], "if-set at run time"),
    (P % ("control_flow::set_if_else::SetIfElse", "Recreate", "recreate"), LV + "create_layer", [LV + "insert", "instruction::InstructionWithStr::recreate"], "if-set when folding"),
    ("instruction::r#loop::r#for::create_instruction", LV + "create_layer", [LV + "insert", NEW], "loop variable visible only in the loop"),
    ("instruction::module::create_instruction", LV + "create_layer", [LV + "create_instructions", LV + "drop_layer"], "module body in its own layer; exactly that layer becomes the struct"),
    ("instruction::import::create_instruction", LV + "create_layer", [LV + "load", LV + "drop_layer"], "imported file in its own layer"),
    ("instruction::function::anonymous::AnonymousFunction::create_instruction", LV + "function_layer", [LV + "create_instructions"], "function body: params + function info, not in the caller's loop"),
    (P % ("function::anonymous::AnonymousFunction", "Recreate", "recreate"), LV + "function_layer", ["instruction::recreate_instructions"], "body folded below a function layer (free names keep their run-time lookup)"),
    (P % ("function::anonymous::AnonymousFunction", "Exec", "exec"), LV + "from_params", ["instruction::recreate_instructions"], "capture by value: body recreated against the creating interpreter, params shadow"),
    ("instruction::function::declaration::FunctionDeclaration::create_instruction", LV + "function_layer", [LV + "create_instructions"], "declared function body"),
    (P % ("function::declaration::FunctionDeclaration", "Recreate", "recreate"), LV + "function_layer", ["instruction::recreate_instructions"], "declared function body when folding"),
    (P % ("function::declaration::FunctionDeclaration", "Exec", "exec"), LV + "from_params", [LV + "insert", "instruction::recreate_instructions"], "capture by value + own name stays a run-time lookup (recursion)"),
]
# the list-level helpers are a map of the element-level call over the slice: either form runs / folds the body
ALTS = {IN + "exec": (IN + "exec", "instruction::Exec::exec"),
        "instruction::recreate_instructions": ("instruction::recreate_instructions", "instruction::InstructionWithStr::recreate",
                                               "instruction::Recreate::recreate")}
# constructs all of whose statements belong to the new scope
ALL_INSIDE = {r[0] for r in ROWS if r[0].startswith((P % ("block::Block", "Exec", "exec"))[:28]) or "block::Block" in r[0]
              or "function::anonymous::AnonymousFunction" in r[0] or "function::declaration::FunctionDeclaration" in r[0]}
# run-time shape of constructs that get their run-time layer from a Block they emit
EMITS_BLOCK = {"instruction::r#loop::r#for::create_instruction": "for = Block[$iter := .., loop Block[...]]: run-time layers come from the emitted Blocks",
               "instruction::module::new": "module / import = Block[body..., struct of its names]"}


def derives_from(b, o, layer, depth=0):
    """operand `o` is (a reborrow of) a reference to local `layer`, or `layer` itself moved"""
    l = op_local(o)
    if l is None or depth > 6:
        return False
    if l == layer:
        return True
    for d in b.def_sites(l):
        if d[1] == "assign":
            rv = d[2]["rv"]
            if rv["k"] in ("ref", "copyderef", "rawptr"):
                if rv["place"]["l"] == layer:
                    return True
                if derives_from(b, {"k": "copy", "l": rv["place"]["l"], "p": []}, layer, depth + 1):
                    return True
            elif rv["k"] == "use" and rv["o"].get("k") in ("copy", "move"):
                if derives_from(b, rv["o"], layer, depth + 1):
                    return True
        elif d[1] == "call":
            p = d[2]["func"].get("fn", {}).get("path", "")
            if p.rsplit("::", 1)[-1] in ("deref", "deref_mut", "as_mut", "as_ref", "borrow_mut"):
                if derives_from(b, d[2]["args"][0], layer, depth + 1):
                    return True
    return False


def run(ctx):
    res = RuleResult("R-LAYER", "scope pairing: each scoping construct creates its layer when checked, when folded and when run, and "
                                "the code inside the construct is created / folded / run against that new layer")
    lib = ctx.facts.lib
    for bid, maker, users, why in ROWS:
        b = lib.body(bid)
        key = "layer:%s|%s" % (bid, maker.rsplit("::", 1)[-1])
        if not res.anchor(b is not None, bid):
            continue
        mk = [c for c in b.calls if c.callee == maker]
        if not mk:
            res.bad(key, "%s no longer creates its scope with %s (%s): names declared inside leak into / overwrite the enclosing scope"
                    % (bid, maker.rsplit("::", 2)[-2] + "::" + maker.rsplit("::", 1)[-1], why), b.where())
            continue
        if len(mk) != 1 or mk[0].dest["p"]:
            res.bad(key, "%s creates %d scopes with %s, one expected" % (bid, len(mk), maker), b.where())
            continue
        layer = mk[0].dest["l"]
        bodies = [b] + lib.closures_of(bid)
        bad = None
        # blocks in which the new scope is alive: from its creation until its StorageDead / move-out
        kills = {i for i, blk in enumerate(b.blocks) for st in blk["stmts"] if st["k"] == "dead" and st["l"] == layer}
        live = b.reachable(mk[0].term.get("target", mk[0].bb), avoid=kills) if mk[0].term.get("target") is not None else set()
        for u in users:
            alts = ALTS.get(u, (u,))
            sites = [(bb, c) for bb in bodies for c in bb.calls if (c.callee in alts or c.path in alts) and (bb is not b or c.bb in live)]
            if not sites:
                bad = "while its new scope is alive, %s never calls %s" % (bid, u)
                break
            # constructs whose whole content lives in the new scope: no call of the body-running function before the
            # scope exists / after it ended (that would run or fold a statement in the enclosing scope)
            if bid in ALL_INSIDE:
                stray = [c for c in b.calls if (c.callee in alts or c.path in alts) and c.bb not in live]
                if stray:
                    bad = "%s calls %s outside its new scope (with the enclosing one): what the statement declares leaks into / overwrites the enclosing scope" \
                          % (bid, stray[0].path.rsplit("::", 1)[-1])
                    break
            own = [c for bb, c in sites if bb is b]
            if own and not any(derives_from(b, a, layer) for c in own for a in c.args):
                bad = "%s calls %s with the enclosing scope instead of the one it just created" % (bid, u.rsplit("::", 1)[-1])
                break
            outer = [c for c in own if not any(derives_from(b, a, layer) for a in c.args)]
            if outer and u not in (LV + "insert", IN + "insert"):
                bad = "%s calls %s with the enclosing scope while the new scope is alive" % (bid, u.rsplit("::", 1)[-1])
                break
        if bad:
            res.bad(key, bad + " (" + why + ")", b.where(mk[0].line))
        else:
            res.ok(key, b.where(mk[0].line), why)
    for bid, why in EMITS_BLOCK.items():
        b = lib.body(bid)
        if not res.anchor(b is not None, bid):
            continue
        n = len(aggregates(b, "instruction::block::Block"))
        key = "layer:%s|emits-Block" % bid
        if n >= 1:
            res.ok(key, b.where(), why)
        else:
            res.bad(key, "%s no longer wraps its result in a Block: no run-time scope for the construct" % bid, b.where())
    # module::new receives exactly the dropped layer
    for bid in ("instruction::module::create_instruction", "instruction::import::create_instruction"):
        b = lib.body(bid)
        if b is None:
            continue
        dl = [c for c in b.calls if c.callee == LV + "drop_layer"]
        mn = [c for c in b.calls if c.callee == "instruction::module::new"]
        key = "layer:%s|module-names" % bid
        if len(dl) == 1 and len(mn) == 1 and not dl[0].dest["p"] and any(op_local(a) == dl[0].dest["l"] for a in mn[0].args):
            res.ok(key, b.where(), "module::new is given exactly the names of the dropped layer")
        else:
            res.bad(key, "%s must build the module struct from the layer it dropped (its own top-level names only)" % bid, b.where())
    # shape facts: an inner scope cannot write an outer one
    for adt, field in (("interpreter::Interpreter", "lower_layer"), ("instruction::local_variable::LocalVariables", "lower_layer")):
        a = lib.adts.get(adt)
        key = "shape:%s.%s" % (adt, field)
        if not res.anchor(a is not None, adt):
            continue
        f = [x for x in a["variants"][0]["fields"] if x["name"] == field]
        if f and f[0]["ty"].startswith("std::option::Option<&") and "&mut" not in f[0]["ty"] and "&'a mut" not in f[0]["ty"]:
            res.ok(key, "", f[0]["ty"] + " (shared reference: the enclosing scope is read-only from inside)")
        else:
            res.bad(key, "%s.%s must be a shared reference to the enclosing scope, found %s" % (adt, field, f[0]["ty"] if f else "nothing"), "")
    for bid in (IN + "insert", LV + "insert"):
        b = lib.body(bid)
        if not res.anchor(b is not None, bid):
            continue
        touched = {e.get("name") for _, s in b.assigns() for e in (s["rv"].get("place") or {"p": []})["p"] if e["k"] == "field"}
        key = "shape:%s" % bid
        if touched <= {"variables"}:
            res.ok(key, b.where(), "insert touches only self.variables")
        else:
            res.bad(key, "%s touches %s" % (bid, sorted(touched)), b.where())
    # sibling agreement: a child that runs in the construct's own scope is also folded in it, and a child that runs in the
    # enclosing scope is folded in the enclosing scope (otherwise the names substituted at closure creation and the names
    # looked up at run time differ: "Tried to get variable x that doest exist")
    from .evalorder import recv
    RUNLIKE = ("instruction::Exec::exec", IN + "exec")
    FOLDLIKE = ("instruction::InstructionWithStr::recreate", "instruction::Recreate::recreate", "instruction::recreate_instructions")

    def classify(b, maker, callees):
        mk = [c for c in b.calls if c.callee == maker]
        out = {}
        if len(mk) != 1 or mk[0].dest["p"]:
            return out
        layer = mk[0].dest["l"]
        for c in b.calls:
            if c.path not in callees and c.callee not in callees:
                continue
            r = None
            for a in c.args:
                r = recv(b, a)
                if r and r[1]:
                    break
            if not r or not r[1]:
                continue
            f = r[1][0]
            cls = "own scope" if any(derives_from(b, a, layer) for a in c.args) else "enclosing scope"
            out.setdefault(f, set()).add(cls)
        return out
    for run_id, fold_id in ((P % ("control_flow::set_if_else::SetIfElse", "Exec", "exec"), P % ("control_flow::set_if_else::SetIfElse", "Recreate", "recreate")),
                            ("instruction::control_flow::match_arm::MatchArm::exec", "instruction::control_flow::match_arm::MatchArm::recreate"),
                            (P % ("block::Block", "Exec", "exec"), P % ("block::Block", "Recreate", "recreate"))):
        rb, fb = lib.body(run_id), lib.body(fold_id)
        if rb is None or fb is None:
            continue
        rc = classify(rb, IN + "create_layer", RUNLIKE)
        fc = classify(fb, LV + "create_layer", FOLDLIKE)
        for f in sorted(set(rc) & set(fc)):
            key = "scope-agreement:%s.%s" % (run_id.split(" as ")[0].lstrip("<").rsplit("::", 1)[-1] if " as " in run_id else run_id.rsplit("::", 2)[-2], f)
            if rc[f] == fc[f]:
                res.ok(key, fb.where(), "child `%s` runs and is folded in the %s" % (f, "/".join(sorted(rc[f]))))
            else:
                res.bad(key, "child `%s` runs in the %s but is folded in the %s: a captured outer variable with the name bound by the "
                             "construct is not substituted at closure creation and is missing at run time" % (f, "/".join(sorted(rc[f])), "/".join(sorted(fc[f]))),
                        fb.where())
    # who may open a scope / run a statement sequence in a scope: exactly the reviewed constructs (a scope opened
    # elsewhere has a different lifetime than the construct it belongs to, e.g. one layer for all iterations of a loop)
    own = __import__("ssl.owners", fromlist=["for_crate"]).for_crate(lib)
    WHO = {
        IN + "create_layer": {P % ("block::Block", "Exec", "exec"), P % ("control_flow::set_if_else::SetIfElse", "Exec", "exec"),
                              P % ("type_filter::TypeFilter", "Exec", "exec"), "instruction::control_flow::match_arm::MatchArm::exec"},
        IN + "exec": {P % ("block::Block", "Exec", "exec"), P % ("array::Array", "Exec", "exec"), P % ("tuple::Tuple", "Exec", "exec"),
                      "function::Function::exec"},
        LV + "create_layer": {"instruction::block::Block::create_instruction", P % ("block::Block", "Recreate", "recreate"),
                              "instruction::control_flow::match_arm::MatchArm::new", "instruction::control_flow::match_arm::MatchArm::recreate",
                              "instruction::control_flow::set_if_else::SetIfElse::create",
                              P % ("control_flow::set_if_else::SetIfElse", "Recreate", "recreate"),
                              "instruction::r#loop::r#for::create_instruction", "instruction::module::create_instruction",
                              "instruction::import::create_instruction"},
        LV + "function_layer": {"instruction::function::anonymous::AnonymousFunction::create_instruction",
                                P % ("function::anonymous::AnonymousFunction", "Recreate", "recreate"),
                                "instruction::function::declaration::FunctionDeclaration::create_instruction",
                                P % ("function::declaration::FunctionDeclaration", "Recreate", "recreate")},
    }
    for callee, allowed in WHO.items():
        for c in sorted(lib.callers.get(callee, ())):
            os_ = own.of(c)
            key = "who-opens:%s|%s" % (callee.rsplit("::", 1)[-1] + ("@Interpreter" if callee.startswith(IN) else "@LocalVariables"), c)
            cb = lib.body(c)
            if os_ and all(o in allowed for o in os_):
                res.ok(key, cb.where() if cb else "")
            else:
                res.bad(key, "%s calls %s: scopes are opened / statement sequences are run only by the reviewed scoping constructs (%d of "
                             "them); a scope opened here lives differently from the construct it belongs to" % (c, callee, len(allowed)),
                        cb.where() if cb else "")
    res.floor(len(res.instances), 24, "layer_instances")
    return res
