"""Rules added after the sixth round of independent seeded changes.

R-WHOBINDS    run-time names are bound (Interpreter::insert) only by the constructs of the language that declare names.
R-UNARYCALL   the unary call operator (runs a function body in the CURRENT scope, binds nothing) is built only by the
              host-call harness, which wraps it in its own block of bindings.
R-STRICT      constructs that always evaluate their children evaluate each of them on every successful path.
R-REKIND      folding a construct rebuilds that construct (or a constant), never another kind of instruction.
R-ARRAYCONST  a folded array constant takes its element type from the folded values.
R-NOABSORB    the absorbing union `|=` on types has no callers.
R-QUERYSELF   (in R-FOLD) a Type query without a union arm may only be a direct delegation to one other query."""
import re

from ..engine import RuleResult
from ..model import aggregates, op_local
from ..owners import for_crate, base
from .export import single_def
from .guard import success_blocks

INSERT = "interpreter::Interpreter::<'a>::insert"
BINDERS = {
    "<instruction::set::Set as instruction::Exec>::exec": "`x := e`",
    "<instruction::destruct_tuple::DestructTuple as instruction::Exec>::exec": "`(a, b) := e`",
    "<instruction::function::declaration::FunctionDeclaration as instruction::Exec>::exec": "`f := (..) {..}`",
    "<instruction::control_flow::set_if_else::SetIfElse as instruction::Exec>::exec": "`if x: T = e` (in its own layer)",
    "instruction::control_flow::match_arm::MatchArm::exec": "`x: T => ..` (in its own layer)",
    "<instruction::type_filter::TypeFilter as instruction::Exec>::exec": "`it ? T`: iterator and default for the generated function (own layer)",
    "function::Function::exec_with_args": "parameters and the function's own name, in a fresh interpreter",
    "interpreter::Interpreter::<'a>::with_stdlib": "`std`",
}


def run_whobinds(ctx):
    res = RuleResult("R-WHOBINDS", "Interpreter::insert is called only by the constructs that declare names (8 reviewed functions): nothing "
                                   "else - the executor of a program, an operator, an iterator - adds or overwrites a run-time name")
    lib = ctx.facts.lib
    own = for_crate(lib)
    n = 0
    for b in sorted(lib.bodies.values(), key=lambda x: x.id):
        sites = [c for c in b.calls if c.callee == INSERT]
        if not sites:
            continue
        n += 1
        owners = sorted(own.of(b.id))
        key = "whobinds:%s" % base(b.id)
        if all(o in BINDERS for o in owners):
            res.ok(key, b.where(sites[0].line), BINDERS[owners[0]])
        else:
            res.bad(key, "%s binds a run-time name with Interpreter::insert: names are declared only by `:=`, destructuring, function "
                         "declarations, type arms / if-set, parameters and `std` - a name written by anything else is visible to (and can "
                         "overwrite a name of) the program, and differs between the statement-by-statement and the batch route" % base(b.id),
                    b.where(sites[0].line))
    res.floor(n, 8, "insert_callers")
    return res


def run_unarycall(ctx):
    res = RuleResult("R-UNARYCALL", "UnaryOperation{op: FunctionCall} (run the callee's body in the current scope) is constructed only by "
                                    "call::create_from_variables, inside the block of bindings it builds for a host call")
    lib = ctx.facts.lib
    own = for_crate(lib)
    from .variant import _const_variant
    ok_owner = "instruction::function::call::create_from_variables"
    n = 0
    for b in sorted(lib.bodies.values(), key=lambda x: x.id):
        for _, s in aggregates(b, "instruction::unary_operation::UnaryOperation"):
            rv = s["rv"]
            v = _const_variant(b, rv["ops"][rv["fields"].index("op")], 0)
            if v != "FunctionCall":
                continue
            n += 1
            key = "unarycall:%s" % base(b.id)
            if own.of(b.id) == frozenset({ok_owner}):
                res.ok(key, b.where(s.get("line")), "host-call harness")
            else:
                res.bad(key, "%s builds the unary call operator: it runs the callee's body in the caller's scope without binding parameters "
                             "or the function's own name - the callee's locals overwrite the caller's, and a self-call from a scope that "
                             "lacks the name fails" % base(b.id), b.where(s.get("line")))
    res.floor(n, 1, "unary_call_constructions")
    return res


EXEC = "instruction::Exec::exec"
# (function, number of child evaluations that happen on every successful path)
STRICT = {
    "<instruction::InstructionWithStr as instruction::Exec>::exec": 1,
    "<instruction::array_repeat::ArrayRepeat as instruction::Exec>::exec": 2,
    "<instruction::bin_op::BinOperation as instruction::Exec>::exec": 1,
    "<instruction::control_flow::if_else::IfElse as instruction::Exec>::exec": 1,
    "<instruction::control_flow::r#match::Match as instruction::Exec>::exec": 1,
    "<instruction::control_flow::set_if_else::SetIfElse as instruction::Exec>::exec": 1,
    "<instruction::destruct_tuple::DestructTuple as instruction::Exec>::exec": 1,
    "<instruction::field_access::FieldAccess as instruction::Exec>::exec": 1,
    "<instruction::r#mut::Mut as instruction::Exec>::exec": 1,
    "<instruction::reduce::Reduce as instruction::Exec>::exec": 3,
    "<instruction::set::Set as instruction::Exec>::exec": 1,
    "<instruction::slicing::Slicing as instruction::Exec>::exec": 4,
    "<instruction::tuple_access::TupleAccess as instruction::Exec>::exec": 1,
    "<instruction::type_filter::TypeFilter as instruction::Exec>::exec": 1,
    "<instruction::unary_operation::UnaryOperation as instruction::Exec>::exec": 1,
}


def _always(lib, own, b, depth=0):
    """number of child evaluations that happen on every successful path of b; an operand evaluated inside a helper that
    belongs to b alone counts with what that helper always evaluates"""
    succ = success_blocks(b) or b.return_blocks()
    total = 0
    for c in b.calls:
        weight = 0
        if c.path == EXEC or c.callee.endswith("Slicing::exec_index"):
            weight = 1
        elif depth < 3:
            hb = lib.body(c.callee)
            if hb is not None and hb is not b and own.of(hb.id) == frozenset({base(b.id)}) | (own.of(b.id) - {base(b.id)}) or \
                    (hb is not None and hb is not b and own.of(hb.id) <= own.of(b.id) and hb.id not in own.known):
                weight = _always(lib, own, hb, depth + 1)
        if weight and c.bb not in b.reachable_after(c.bb) and all(c.bb in b.dom[s2] for s2 in succ):
            total += weight
    return total


def run_strict(ctx):
    res = RuleResult("R-STRICT", "strict constructs evaluate every operand on every successful path: the reviewed number of child "
                                 "evaluations dominates each success value (no early answer before an operand was evaluated)")
    lib = ctx.facts.lib
    own = for_crate(lib)
    for fid, want in sorted(STRICT.items()):
        b = lib.body(fid)
        if not res.anchor(b is not None, fid):
            continue
        got = _always(lib, own, b)
        key = "strict:%s" % fid
        if got >= want:
            res.ok(key, b.where(), "%d operand evaluation(s) on every successful path" % got)
        else:
            res.bad(key, "%s can produce a result after evaluating only %d of its %d operands on some path: the effects and errors of the "
                         "skipped operand(s) disappear (operands are evaluated left to right, each exactly once)" % (fid, got, want), b.where())
    return res


def run_rekind(ctx):
    res = RuleResult("R-REKIND", "Recreate for X builds no instruction struct other than X (and constants): a fold that answers with "
                                 "another construct drops what X does at run time (a loop's catch site, a block's scope, an operator)")
    lib = ctx.facts.lib
    own = for_crate(lib)
    n = 0
    harmless = ("instruction::local_variable::", "instruction::InstructionWithStr", "instruction::ExecStop")
    for fid, b in sorted(lib.bodies.items()):
        if not (b.impl_trait == "instruction::Recreate" and b.name == "recreate") or b.impl_self == "instruction::Instruction":
            continue
        n += 1
        me = b.impl_self
        others = []
        for hb in own.cluster(fid):
            for _, s in aggregates(hb):
                adt = s["rv"].get("adt") or ""
                if not adt.startswith("instruction::") or adt.startswith(harmless) or adt == me:
                    continue
                if adt == "instruction::Instruction":
                    if s["rv"].get("variant") == "Variable":
                        continue
                    others.append("Instruction::" + s["rv"].get("variant", "?"))
                else:
                    others.append(adt)
        key = "rekind:%s" % me
        if others:
            res.bad(key, "%s::recreate builds %s: folding must rebuild the construct itself or a constant" % (me, ", ".join(sorted(set(others)))), b.where())
        else:
            res.ok(key, b.where(), "rebuilds itself / constants only")
    res.floor(n, 18, "recreate_impls")
    return res


def run_arrayconst(ctx):
    res = RuleResult("R-ARRAYCONST", "a constant produced by folding an array literal gets its element type from the folded values, as the "
                                     "same literal built at run time would - not from the (wider) static type of the element expressions")
    lib = ctx.facts.lib
    own = for_crate(lib)
    fid = "<instruction::array::Array as instruction::Recreate>::recreate"
    b = lib.body(fid)
    if not res.anchor(b is not None, fid):
        return res
    key = "arrayconst:recreate"
    bad = None
    for hb in own.cluster(fid):
        for c in hb.calls:
            if c.callee.endswith("variable::array::Array::new_with_type"):
                bad = (hb, c, "calls Array::new_with_type")
        for _, s in aggregates(hb, "variable::array::Array"):
            bad = (hb, s, "builds variable::Array by hand")
    if bad:
        hb, site, how = bad
        res.bad(key, "Array::recreate %s: the folded constant carries a stated element type instead of the type of its values - run-time "
                     "type tests (`if x: [int] = ..`, type arms, `? T`) then answer differently for the folded and the unfolded program" % how,
                hb.where(site.line if hasattr(site, "line") else site.get("line")))
    else:
        res.ok(key, b.where(), "constant built from the values")
    return res


def run_noabsorb(ctx):
    res = RuleResult("R-NOABSORB", "`|=` on types (which absorbs members by subtyping) has no callers: every union is built by `|` / concat, "
                                   "which keeps all distinct members")
    lib = ctx.facts.lib
    target = "<variable::r#type::Type as std::ops::BitOrAssign>::bitor_assign"
    if lib.body(target) is None:
        res.ok("noabsorb", "", "no absorbing union exists")
        return res
    callers = sorted({b.id for b in lib.bodies.values() for c in b.calls if c.callee == target} |
                     {b.id for b in lib.bodies.values() for x in b.fn_operands() if x[1] == target})
    if callers:
        res.bad("noabsorb", "%s builds a type with `|=`: a member that is a subtype of another member is dropped, so the result depends on "
                            "the order in which members arrive (hash order) and a printed union does not read back as an equal type"
                % ", ".join(callers), lib.body(callers[0]).where())
    else:
        res.ok("noabsorb", lib.body(target).where(), "no callers")
    return res


def run_whounion(ctx):
    res = RuleResult("R-WHOUNION", "a union type value (Type::Multi) is constructed only by Type::concat, the one place that keeps unions "
                                   "canonical (no `any` / `!` member, no nested union, no one-member union): nothing else - including what "
                                   "var_type! / #[export] expand to in this crate - wraps a member set by hand")
    lib = ctx.facts.lib
    own = for_crate(lib)
    concat = "variable::r#type::Type::concat"
    if not res.anchor(lib.body(concat) is not None, concat):
        return res
    n = 0
    for b in sorted(lib.bodies.values(), key=lambda x: x.id):
        if b.id == "<variable::r#type::Type as std::clone::Clone>::clone":
            continue
        sites = [s.get("line") for _, s in aggregates(b, "variable::r#type::Type") if s["rv"].get("variant") == "Multi"]
        sites += [c.line for c in b.calls if re.match(r"<variable::r#type::Type as std::convert::From<variable::multi_type::MultiType>>::from$", c.full)
                  or re.match(r"<variable::multi_type::MultiType as std::convert::Into<variable::r#type::Type>>::into$", c.full)]
        if not sites:
            continue
        n += len(sites)
        key = "whounion:%s" % base(b.id)
        if own.of(b.id) == frozenset({concat}):
            res.ok(key, b.where(sites[0]), "%d construction(s) inside Type::concat" % len(sites))
        else:
            res.bad(key, "%s builds Type::Multi directly: the member set is not normalised by Type::concat, so a union holding `any`, `!`, "
                         "a nested union or a single member can exist - it prints as text that the type parser reads back as a different "
                         "(the normalised) type, and equality / matches treat it differently from the type a script can write"
                    % base(b.id), b.where(sites[0]))
    res.floor(n, 1, "union_constructions")
    return res
