"""R-LOCK / R-GLOBAL: lock discipline of mutable cells, immutability of globals."""
from ..engine import RuleResult
from ..model import op_local

ACQ = {"std::sync::RwLock::<T>::read": "read", "std::sync::RwLock::<T>::write": "write",
       "std::sync::RwLock::<T>::try_read": "read", "std::sync::RwLock::<T>::try_write": "write",
       "std::sync::Mutex::<T>::lock": "write", "std::sync::Mutex::<T>::try_lock": "write"}
ASSIGN = "instruction::bin_op::assign::exec"
TRY_ASSIGN = "instruction::bin_op::assign::try_exec"
SITES = {   # acquisition sites confirmed by reading: body -> (mode, reason)
    ASSIGN: ("write", "read-modify-write of a cell under one write guard"),
    TRY_ASSIGN: ("write", "same, fallible kernels"),
    "instruction::prefix_op::indirection::exec": ("read", "`*c`: clone the content under a read guard"),
    "variable::r#mut::Mut::string": ("read", "rendering: clone/format the content under a read guard"),
}
REENTRY = ("instruction::Exec::exec", "function::Function::exec", "function::Function::exec_with_args",
           "interpreter::Interpreter::<'a>::exec", "code::Code::exec", "code::Code::exec_unscoped")
INTERIOR = ("std::sync::Mutex<", "std::sync::RwLock<", "std::cell::Cell<", "std::cell::RefCell<", "std::cell::UnsafeCell<",
            "std::sync::atomic::", "std::cell::OnceCell<", "std::sync::OnceLock<", "std::sync::mpsc::")


def acquisitions(b):
    """[(call, mode, guard_local|None, region_blocks)]"""
    out = []
    for c in b.calls:
        if c.callee not in ACQ:
            continue
        guard = None
        start = c.term.get("target")
        if not c.dest["p"]:
            # LockResult -> unwrap/expect -> guard
            for bb, w, o in b.uses(c.dest["l"]):
                if w.startswith("arg") and o["func"].get("fn", {}).get("path", "").rsplit("::", 1)[-1] in ("unwrap", "expect", "unwrap_or_else"):
                    if not o["dest"]["p"]:
                        guard = o["dest"]["l"]
                        start = o.get("target")
        region = set()
        if start is not None:
            kills = set()
            if guard is not None:
                for i, blk in enumerate(b.blocks):
                    t = blk["term"]
                    if t["k"] == "drop" and t["place"]["l"] == guard and not t["place"]["p"]:
                        kills.add(i)
            # blocks reachable from start; a kill block is included (its own terminator is the drop) but not expanded
            stack = [start]
            while stack:
                u = stack.pop()
                if u in region:
                    continue
                region.add(u)
                if u in kills:
                    continue
                stack.extend(b.succ[u])
        out.append((c, ACQ[c.callee], guard, region))
    return out


def region_callees(b, region):
    cs = []
    for c in b.calls:
        if c.bb in region:
            cs.append(c)
    return cs


def lock_free(lib, roots, res_key_prefix=None):
    """(ok, offending chain) - no acquisition, no interpreter re-entry in the transitive callees of roots."""
    reach = lib.reach(roots)
    for name in reach:
        if name in ACQ:
            return False, lib.chain(reach, name)
        if name in REENTRY or name.endswith(" as instruction::Exec>::exec"):
            return False, lib.chain(reach, name)
    return True, None


def run(ctx):
    res = RuleResult("R-LOCK", "cells are updated under exactly one write guard (read, callback, store inside its live region; the "
                               "store happens only after a fallible kernel succeeded); no lock is acquired and the interpreter is "
                               "not re-entered while a guard is live")
    lib = ctx.facts.lib
    n_acq = 0
    per_body = {}
    for b in lib.bodies.values():
        acqs = acquisitions(b)
        if acqs:
            per_body[b.id] = acqs
    for bid, acqs in per_body.items():
        b = lib.bodies[bid]
        for c, mode, guard, region in acqs:
            n_acq += 1
            key = "acquire:%s:%s" % (bid, mode)
            from ..owners import for_crate
            os_ = for_crate(lib).of(bid)
            if bid not in SITES:
                if os_ and all(o in SITES and SITES[o][0] == mode for o in os_):
                    res.ok(key, b.where(c.line), "in a helper of %s" % ", ".join(sorted(os_)))
                else:
                    res.bad(key, "new lock acquisition (%s, %s mode) in %s: not one of the reviewed sites %s (nor a helper called only "
                                 "from sites of that mode)" % (c.callee, mode, bid, sorted(SITES)), b.where(c.line))
                    continue
            elif SITES[bid][0] != mode:
                res.bad(key, "%s acquires the cell in %s mode, reviewed mode is %s" % (bid, mode, SITES[bid][0]), b.where(c.line))
                continue
            else:
                res.ok(key, b.where(c.line), SITES[bid][1])
            # nesting / re-entry inside the live region
            roots = []
            for rc in region_callees(b, region):
                if rc.callee in ACQ:
                    res.bad("nested:%s" % bid, "%s acquires a lock while already holding the guard taken at line %s" % (bid, c.line), b.where(rc.line))
                elif rc.callee:
                    roots.append(rc.callee)
            ok, chain = lock_free(lib, roots)
            k2 = "held-region:%s" % bid
            if ok:
                res.ok(k2, b.where(c.line), "%d callees in the guard's live region, transitively lock-free and without interpreter re-entry" % len(roots))
            else:
                res.bad(k2, "while %s holds the %s guard it reaches %s (via %s): a recursive read blocks behind a queued writer, a "
                            "nested write self-deadlocks" % (bid, mode, chain[-1], " -> ".join(chain)), b.where(c.line))
    res.floor(n_acq, 4, "acquisitions")
    from ..owners import for_crate as _fc
    acq_owners = set()
    for bid in per_body:
        acq_owners |= set(_fc(lib).of(bid))
    for s in SITES:
        res.anchor(s in acq_owners, "lock acquisition in " + s)

    # ---- atomic update shape
    for bid in (ASSIGN, TRY_ASSIGN):
        b = lib.body(bid)
        if not res.anchor(b is not None, bid):
            continue
        acqs = per_body.get(bid, [])
        key = "atomic:%s" % bid
        if len(acqs) != 1 or acqs[0][1] != "write":
            res.bad(key + ":one-write-guard", "%s must take exactly one write guard for the whole read-modify-write (found %s): with a "
                                              "separate read and write, concurrent `op=` updates are lost"
                    % (bid, [(a[1]) for a in acqs]), b.where())
            continue
        c, mode, guard, region = acqs[0]
        res.ok(key + ":one-write-guard", b.where(c.line))
        reads = [x for x in b.calls if x.path == "std::ops::Deref::deref" and "RwLockWriteGuard" in x.self_ty]
        stores = [x for x in b.calls if x.path == "std::ops::DerefMut::deref_mut" and "RwLockWriteGuard" in x.self_ty]
        cbs = [x for x in b.calls if x.path in ("std::ops::FnOnce::call_once", "std::ops::Fn::call", "std::ops::FnMut::call_mut")]
        for what, lst in (("read", reads or stores), ("callback", cbs), ("store", stores)):
            k = "%s:%s-in-region" % (key, what)
            if not lst:
                res.bad(k, "%s has no %s of the cell content" % (bid, what), b.where())
            elif all(x.bb in region for x in lst):
                res.ok(k, b.where(lst[0].line))
            else:
                res.bad(k, "the %s in %s happens outside the write guard's live region" % (what, bid), b.where(lst[0].line))
        if cbs and stores:
            # the old content is obtained before the kernel runs (a read, or a move-out through deref_mut) and the result
            # is stored after it; in try_exec *every* store must wait for the success check (separate rule below)
            before = [x for x in reads + stores if all(b.dominates(x.bb, cb.bb) and x.bb != cb.bb for cb in cbs)]
            after = [x for x in stores if all(b.dominates(cb.bb, x.bb) for cb in cbs)]
            order_ok = bool(before) and bool(after)
            if order_ok:
                res.ok(key + ":order", b.where(), "read old content -> kernel -> store")
            else:
                res.bad(key + ":order", "%s does not compute the new content from the old one before storing" % bid, b.where())
        if bid == TRY_ASSIGN:
            br = [x for x in b.calls if x.path == "std::ops::Try::branch"]
            k = key + ":store-after-success"
            good = False
            for x in br:
                # Continue arm of the branch result
                tgt = x.term.get("target")
                if tgt is None:
                    continue
                t = b.blocks[tgt]["term"]
                if t["k"] == "switch":
                    cont = [bbx for v, bbx in t["targets"] if v == "0"]
                    if cont and stores and all(b.dominates(cont[0], s.bb) for s in stores):
                        good = True
            if good:
                res.ok(k, b.where(), "deref_mut (the store) is dominated by the Continue arm of `?` on the kernel's result")
            else:
                res.bad(k, "in try_exec the cell is written before the kernel's result was checked: a failing `op=` changes the cell", b.where())

    # ---- callbacks per instantiation
    user = lib.body("<instruction::bin_op::BinOperation as instruction::Exec>::exec")
    if res.anchor(user is not None, "BinOperation::exec"):
        n_cb = 0
        for c in user.calls:
            if c.callee not in (ASSIGN, TRY_ASSIGN):
                continue
            a = c.args[2] if len(c.args) > 2 else {}
            name = None
            if a.get("k") == "const" and "fn" in a:
                name = a["fn"].get("resolved") or a["fn"]["path"]
            elif a.get("k") == "const" and "closure" in a:
                name = a["closure"]
            elif a.get("k") in ("copy", "move"):
                for _, s in user.assigns():
                    if s["place"]["l"] == a["l"] and s["rv"]["k"] == "agg" and s["rv"].get("agg") == "closure":
                        name = s["rv"]["closure"]
            key = "callback:%s" % (name or "?")
            n_cb += 1
            if name is None:
                res.bad(key, "cannot resolve the update function passed to %s" % c.callee, user.where(c.line))
                continue
            ok, chain = lock_free(lib, [name])
            if ok:
                res.ok(key, user.where(c.line), "lock-free, no interpreter re-entry")
            else:
                res.bad(key, "update function %s runs under the cell's write guard and reaches %s" % (name, " -> ".join(chain)), user.where(c.line))
        res.floor(n_cb, 12, "assign_callbacks")
    # no custom Drop impl in the crate may run under a guard unnoticed
    drops = [im for im in lib.impls if im.get("trait") == "std::ops::Drop"]
    if drops:
        for im in drops:
            ok, chain = lock_free(lib, [it["path"] for it in im["items"]])
            if not ok:
                res.bad("drop:%s" % im["self_ty"], "Drop for %s takes a lock / re-enters the interpreter: values are dropped under the write guard in assign" % im["self_ty"], "%s:%s" % (im["file"], im["line"]))
            else:
                res.ok("drop:%s" % im["self_ty"])
    else:
        res.ok("drop:none", "", "the crate defines no Drop impl (old cell contents dropped under the guard run no user code)")
    # positive controls
    fx = ctx.fixtures
    fired_nested = fired_two = False
    for b in fx.bodies.values():
        if not b.id.startswith("lock::"):
            continue
        acqs = acquisitions(b)
        for c, mode, guard, region in acqs:
            roots = [rc.callee for rc in region_callees(b, region) if rc.callee]
            reach = fx.reach(roots)
            if b.id == "lock::Cell::render" and any(n in ACQ for n in reach):
                fired_nested = True
        if b.id == "lock::read_then_write" and len(acqs) == 2:
            fired_two = True
    res.control(fired_nested, "lock::Cell::render (recursive read under a read guard)")
    res.control(fired_two, "lock::read_then_write (two acquisitions for one update)")
    return res


def run_global(ctx):
    res = RuleResult("R-GLOBAL", "every static of the workspace crates is immutable after initialisation (no interior mutability "
                                 "in its type, not `static mut`)")
    n = 0
    for crate in (ctx.facts.lib, ctx.facts.parser):
        for s in crate.statics:
            # lazy_static's private LAZY cell is the one-time initialiser itself
            if s["path"].endswith("::__stability::LAZY"):
                inner = s["ty"].split("Lazy<", 1)[-1]
                if any(x in inner for x in INTERIOR):
                    res.bad("static:%s" % s["path"], "lazily initialised static %s holds %s: a process-wide mutable table (a cache, a counter) "
                                                     "outlives every parse and run, so what a program does depends on what ran before it"
                            % (s["path"].rsplit("::__stability", 1)[0].rsplit("::deref", 1)[0], inner.rstrip(">")[:120]), "%s:%s" % (s["file"], s["line"]))
                else:
                    res.ok("static:%s" % s["path"], "%s:%s" % (s["file"], s["line"]), "lazy_static's Once cell (initialisation only)")
                continue
            n += 1
            key = "static:%s" % s["path"]
            where = "%s:%s" % (s["file"], s["line"])
            if s["mutable"] != "Not":
                res.bad(key, "`static mut` %s" % s["path"], where)
            elif any(x in s["ty"] for x in INTERIOR) or not s.get("freeze", True):
                res.bad(key, "static %s: %s has interior mutability: shared mutable global state" % (s["path"], s["ty"]), where)
            else:
                res.ok(key, where, s["ty"])
    res.floor(n, 30, "statics")
    fx = ctx.fixtures
    res.control(any(("Mutex<" in s["ty"] or not s.get("freeze", True)) for s in fx.statics if "lock::COUNTER" in s["path"]), "lock::COUNTER (static Mutex)")
    return res
