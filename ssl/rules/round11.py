"""Rules added after the eleventh round of independent seeded changes (conditions that are kept but weakened)."""
from ..engine import RuleResult
from .. import boolpath

I = "instruction::"
# (function that unwraps a Type query of one of its parameters, admissibility predicate of the same operator,
#  {parameter index in the unwrapping function: parameter index in the predicate}, why the positions correspond)
QUERYIMPL_ROWS = [
    (I + "bin_op::math::add::return_type", I + "bin_op::math::add::can_be_used", {1: 1, 2: 2},
     "both are called with (left operand type, right operand type) by the typing dispatchers of `+` / `+=`"),
    (I + "bin_op::map::return_type", I + "bin_op::map::can_be_used", {1: 2},
     "`it @ f`: return_type receives the mapper's type, the second operand of can_be_used"),
    (I + "bin_op::partition::return_type", I + "bin_op::filter::can_be_used", {1: 1},
     "`it \\ p`: return_type receives the iterator's type, the first operand of filter::can_be_used (shared by `?` and `\\`)"),
    (I + "reduce::collect::return_type", I + "reduce::collect::can_be_used", {1: 1}, "`it $]`: the operand's type"),
]


def _fmt(atom):
    return "Type::%s(operand %d)" % atom


def queryimpl_judge(unw, chk, pmap, resolve=None):
    """-> (obligations, violations[str]) for one row; raises boolpath.CannotDecide."""
    up = boolpath.enumerate_paths(unw, resolve=resolve)
    cp = boolpath.enumerate_paths(chk, resolve=resolve)
    obligations = []
    for p in up:
        for kind, atom, pc, line in p.events:
            if atom[1] not in pmap:
                continue
            tr = lambda a: (a[0], pmap.get(a[1], -a[1]))
            obligations.append((tr(atom), {tr(a): v for a, v in pc.items()}, line))
    bad = []
    accept = []
    for p in cp:
        if p.ret == ("const", False):
            continue
        a = dict(p.assume)
        if p.ret[0] == "lit":
            if a.get(p.ret[1], p.ret[2]) != p.ret[2]:
                continue        # the literal is false under the path's own assumptions: the path answers false
            a[p.ret[1]] = p.ret[2]
        elif p.ret[0] == "implies":
            if a.get(p.ret[1]) is False:
                continue
            a[p.ret[1]] = True
        accept.append(a)
    for atom, pc, line in obligations:
        for a in accept:
            if any(k in a and a[k] != v for k, v in pc.items()):
                continue        # this accepted operand pair never reaches the unwrap
            if a.get(atom) is True or pc.get(atom) is True:
                continue
            known = ", ".join("%s is %s" % (_fmt(k), "Some" if v else "None") for k, v in sorted(a.items())) or "nothing about the queries"
            bad.append("%s unwraps %s (line %s)%s, but %s answers true on a path that establishes only: %s" % (
                unw.id, _fmt(atom), line,
                " when " + ", ".join("%s is %s" % (_fmt(k), "Some" if v else "None") for k, v in sorted(pc.items())) if pc else "",
                chk.id, known))
    return obligations, accept, bad


def run_queryimpl(ctx):
    res = RuleResult("R-QUERYIMPL", "the admissibility predicate of an operator implies every Type query its result type unwraps: on each "
                                    "path on which the predicate can answer true, the query on the corresponding operand was seen to be "
                                    "Some, unless the unwrap itself lies behind a test the path contradicts (symbolic path enumeration over "
                                    "both MIR bodies; atoms are (query, operand))")
    lib = ctx.facts.lib
    n_obl = 0
    for unw_id, chk_id, pmap, why in QUERYIMPL_ROWS:
        unw, chk = lib.body(unw_id), lib.body(chk_id)
        key = "queryimpl:%s" % unw_id
        if not res.anchor(unw is not None, unw_id) or not res.anchor(chk is not None, chk_id):
            continue
        try:
            obligations, accept, bad = queryimpl_judge(unw, chk, pmap, resolve=lambda path: lib.body(path))
        except boolpath.CannotDecide as e:
            res.broken.append("cannot decide: %s" % e)
            continue
        n_obl += len(obligations)
        if not res.anchor(bool(obligations), "%s unwraps a Type query of a parameter" % unw_id):
            continue
        if not res.anchor(bool(accept), "%s has an accepting path" % chk_id):
            continue
        if bad:
            res.bad(key, bad[0] + " - the predicate accepts operands for which the result type panics while parsing (%s)" % why, chk.where())
        else:
            res.ok(key, chk.where(), "%d unwrap obligation(s) x %d accepting path(s) of %s: implied" % (len(obligations), len(accept), chk_id))
    res.floor(n_obl, 4, "unwrap_obligations")
    # controls (fixture crate): a predicate that tests the wrong operand is reported, the correct twin is accepted
    fx = ctx.fixtures
    if fx is not None:
        for cid, expect_bad in (("queryimpl::swapped_can_be_used", True), ("queryimpl::good_can_be_used", False), ("queryimpl::good_match_can_be_used", False), ("queryimpl::good_early_can_be_used", False), ("queryimpl::good_helper_can_be_used", False), ("queryimpl::good_some_and_can_be_used", False), ("queryimpl::swapped_helper_can_be_used", True)):
            c = fx.body(cid)
            u = fx.body("queryimpl::return_type")
            if c is None or u is None:
                res.control(False, cid)
                continue
            try:
                _, _, bad = queryimpl_judge(u, c, {1: 1, 2: 2}, resolve=lambda path: fx.body(path))
            except boolpath.CannotDecide:
                bad = ["cannot decide"]
            res.control(bool(bad) == expect_bad, cid + (" is reported" if expect_bad else " accepted"))
    return res


# ----------------------------------------------------------------------------------------------------------------------
ZIP_FUNCS = ["variable::r#type::Type::matches", "variable::r#type::Type::conjoin", "variable::function_type::FunctionType::matches"]


def _ziplen_sites(lib, fid):
    """[(zip call, flat labels a, flat labels b, guarded: bool)] for the zips of (part of S, part of O) in fid, its closures and the
    private helpers that belong to it"""
    from .variance import analyse, flat, side
    b0, _, _ = analyse(lib, fid)
    provs = dict(analyse.last_provs)
    out = []
    compares_of = {}
    zips = []
    for pv in provs.values():
        b = pv.b
        # length comparisons: binop Eq / Ne whose two operands are `len()` results of a pure-S and a pure-O value
        lens = {}       # local -> flat labels, for locals written by a `len` call
        for c in b.calls:
            if c.callee.rsplit("::", 1)[-1] == "len" and c.args and c.dest and not c.dest.get("p"):
                lens[c.dest["l"]] = frozenset(flat(pv.of_op(c.args[0])))
        for _ in range(3):
            for _, s in b.assigns():
                rv = s["rv"]
                if rv["k"] == "use" and isinstance(rv["o"], dict) and rv["o"].get("l") in lens and not rv["o"].get("p") and not s["place"]["p"]:
                    lens.setdefault(s["place"]["l"], lens[rv["o"]["l"]])
        compares = []   # (block, labels a, labels b)
        for i, s in b.assigns():
            rv = s["rv"]
            if rv["k"] == "binop" and rv.get("op") in ("Eq", "Ne"):
                la, lb = rv["a"].get("l") if isinstance(rv["a"], dict) else None, rv["b"].get("l") if isinstance(rv["b"], dict) else None
                if la in lens and lb in lens:
                    compares.append((i, lens[la], lens[lb]))
        compares_of[b.id] = compares
        for c in b.calls:
            if c.callee.rsplit("::", 1)[-1] != "zip" or len(c.args) != 2:
                continue
            A, B = pv.of_op(c.args[0]), pv.of_op(c.args[1])
            sa, sb = side(A), side(B)
            if {sa, sb} != {"S", "O"}:
                continue        # not a pairing of the two operands' parts
            zips.append((b, c, frozenset(flat(A)), frozenset(flat(B))))

    def guarded_at(b, bb, fa, fb, depth=0):
        for blk, x, y in compares_of.get(b.id, ()):
            if {x, y} != {fa, fb}:
                continue
            # before the zip, or after it on every way out (the zipped list is not yet an answer)
            if b.dominates(blk, bb) or not (set(b.return_blocks()) & set(b.reachable(bb, avoid=(blk,)))):
                return True
        if depth < 2:
            # the zip sits in a helper / closure: the comparison may guard the place it is called (or built) from
            for q in provs.values():
                for c in q.b.calls:
                    if c.callee == b.id and guarded_at(q.b, c.bb, fa, fb, depth + 1):
                        return True
                if b.id.startswith(q.b.id + "::{closure#"):
                    for i, st in q.b.assigns():
                        if st["rv"]["k"] == "agg" and st["rv"].get("agg") == "closure" and st["rv"].get("closure") == b.id \
                                and guarded_at(q.b, i, fa, fb, depth + 1):
                            return True
        return False
    for b, c, fa, fb in zips:
        out.append((c, fa, fb, guarded_at(b, c.bb, fa, fb)))
    return b0, out


def run_ziplen(ctx):
    res = RuleResult("R-ZIPLEN", "`zip` stops at the shorter sequence: wherever the type algebra pairs the parts of its two operands with "
                                 "zip (tuple members, parameter lists), a comparison of the lengths of exactly those two sequences "
                                 "dominates the zip (provenance dataflow: both compared lengths are `len()` of the same parts of S and O "
                                 "that are zipped, not of a derived or already zipped list)")
    lib = ctx.facts.lib
    n = 0
    for fid in ZIP_FUNCS:
        if not res.anchor(lib.body(fid) is not None, fid):
            continue
        b, sites = _ziplen_sites(lib, fid)
        for c, fa, fb, guarded in sites:
            n += 1
            what = "%s with %s" % ("/".join(sorted(fa)), "/".join(sorted(fb)))
            key = "ziplen:%s|%s" % (fid, what)
            if guarded:
                res.ok(key, c.where(), "lengths of both zipped sequences compared before the zip")
            else:
                res.bad(key, "%s zips %s but no comparison of the lengths of these two sequences dominates the zip: when one operand is "
                             "longer its tail is ignored (e.g. (int, int)->int against (int)->int, or a longer tuple), so the answer is "
                             "not a bound of both operands" % (fid, what), c.where())
    res.floor(n, 1, "zips of the two operands' parts")
    return res


# ----------------------------------------------------------------------------------------------------------------------
NEW_IDENT = "instruction::Instruction::new_ident"
LV_GET = "instruction::local_variable::LocalVariables::<'a>::get"
INT_GET = "interpreter::Interpreter::<'a>::get_variable"
NONE_ONLY = {"map_or_else": 1, "or_else": 1, "unwrap_or_else": 1, "ok_or_else": 1, "or_insert_with": 1}


def _shadow_judge(lib, fid, own_members):
    """-> (n lookups of the enclosing interpreter, [problem strings])"""
    bodies = {hb.id: hb for hb in own_members}
    probs = []
    n = 0
    for hb in bodies.values():
        for c in hb.calls:
            if c.callee != INT_GET:
                continue
            n += 1
            ok, why = _behind_none(lib, bodies, hb, c.bb, set())
            if not ok:
                probs.append((hb, c, why))
    return n, probs


def _opt_locals(b):
    """locals holding the Option answered by LocalVariables::get (through copies / moves / references)"""
    s = {c.dest["l"] for c in b.calls if c.callee == LV_GET and c.dest and not c.dest.get("p")}
    for _ in range(4):
        for _, st in b.assigns():
            rv = st["rv"]
            src = rv.get("o") if rv["k"] == "use" else rv.get("place") if rv["k"] in ("ref", "copyderef") else None
            if isinstance(src, dict) and src.get("l") in s and all(p.get("k") == "deref" for p in src.get("p", [])) and not st["place"]["p"]:
                s.add(st["place"]["l"])
        for c in b.calls:
            if c.callee.rsplit("::", 1)[-1] in ("as_ref", "clone", "cloned", "copied", "as_deref") and c.args and isinstance(c.args[0], dict) and c.args[0].get("l") in s and c.dest:
                s.add(c.dest["l"])
    return s


def _behind_none(lib, bodies, hb, bb, seen):
    """is block bb of hb executed only when LocalVariables::get answered None?"""
    if (hb.id, bb) in seen:
        return False, "recursion"
    seen = seen | {(hb.id, bb)}
    opts = _opt_locals(hb)
    # edges that are taken only when the lookup answered None
    edges = set()
    for i, blk in enumerate(hb.blocks):
        t = blk["term"]
        if t["k"] != "switch":
            continue
        l = t["discr"].get("l") if isinstance(t["discr"], dict) else None
        for st in blk["stmts"]:
            if st["k"] == "assign" and st["place"]["l"] == l and not st["place"]["p"] and st["rv"]["k"] == "discr" \
                    and st["rv"]["place"]["l"] in opts and all(p.get("k") == "deref" for p in st["rv"]["place"]["p"]):
                for v, tg in t["targets"]:
                    if str(v) == "0":
                        edges.add((i, tg))
                if "0" not in [str(v) for v, _ in t["targets"]] and len(t["targets"]) == 1:
                    edges.add((i, t["otherwise"]))
        # is_none() / is_some() results
        for c in hb.calls:
            if c.dest and c.dest.get("l") == l and c.args and isinstance(c.args[0], dict) and c.args[0].get("l") in opts:
                last = c.callee.rsplit("::", 1)[-1]
                for v, tg in t["targets"]:
                    if last == "is_none" and str(v) == "0":
                        edges.add((i, t["otherwise"]))
                    if last == "is_some" and str(v) == "0":
                        edges.add((i, tg))
    if edges:
        seen_b = {0}
        work = [0]
        while work:
            u = work.pop()
            for v in hb.succ[u]:
                if (u, v) in edges or v in seen_b:
                    continue
                seen_b.add(v)
                work.append(v)
        if bb not in seen_b:
            return True, "behind the None edge"
    # the body is a closure handed to a combinator that runs it only for None, on the lookup's answer
    if hb.kind == "closure" or "{closure#" in hb.id:
        parent = bodies.get(hb.id.rsplit("::{closure#", 1)[0]) or lib.body(hb.id.rsplit("::{closure#", 1)[0])
        if parent is None:
            return False, "closure without a parent body"
        popts = _opt_locals(parent)
        for c in parent.calls:
            last = c.callee.rsplit("::", 1)[-1]
            for idx, a in enumerate(c.args):
                if not isinstance(a, dict) or a.get("l") is None:
                    continue
                # is this argument the closure value?
                defs = parent.def_sites(a["l"])
                is_cl = any(k == "assign" and d["rv"]["k"] == "agg" and d["rv"].get("agg") == "closure" and d["rv"].get("closure") == hb.id for _, k, d in defs)
                if not is_cl:
                    continue
                recv = c.args[0].get("l") if isinstance(c.args[0], dict) else None
                if last in NONE_ONLY and idx == NONE_ONLY[last] and recv in popts:
                    return True, "default branch of %s on the lookup's answer" % last
                # or the combinator call itself sits behind the None edge of the parent
                ok, why = _behind_none(lib, bodies, parent, c.bb, seen)
                if ok:
                    return True, why
                return False, "the closure is run by %s, which does not depend on the local lookup answering None" % last
        return False, "closure not handed to a combinator of the lookup's answer"
    return False, "reachable although the name is a local"


def run_identorder(ctx):
    res = RuleResult("R-IDENTORDER", "an identifier is resolved in the scopes of the program being parsed first: Instruction::new_ident asks "
                                     "the enclosing interpreter (values left by earlier REPL lines / the host) only on paths where the lookup "
                                     "in LocalVariables answered None - otherwise a parameter, loop variable or re-declaration would not "
                                     "shadow an older global of the same name (edge-dominance on the MIR CFG, closures followed to the "
                                     "combinator that runs them)")
    from ..owners import for_crate
    lib = ctx.facts.lib
    b = lib.body(NEW_IDENT)
    if not res.anchor(b is not None, NEW_IDENT):
        return res
    own = for_crate(lib)
    n, probs = _shadow_judge(lib, NEW_IDENT, list(own.members(NEW_IDENT)))
    key = "identorder:new_ident"
    if probs:
        hb, c, why = probs[0]
        res.bad(key, "%s asks the enclosing interpreter for the name on a path where the name may be a local of the program being parsed "
                     "(%s): a parameter / loop variable / non-constant re-declaration no longer shadows a value left in the interpreter, "
                     "its uses are frozen to the old value at parse time" % (hb.id, why), hb.where(c.line))
    else:
        res.ok(key, b.where(), "%d lookup(s) of the enclosing interpreter, all behind `LocalVariables::get == None`" % n)
    res.floor(n, 1, "interpreter lookups in new_ident")
    # who else reads interpreter variables while parsing: only new_ident (and import / module code, which reads `std`)
    return res


# ----------------------------------------------------------------------------------------------------------------------
DECL_EXEC = "<instruction::function::declaration::FunctionDeclaration as instruction::Exec>::exec"
LV_INSERT = "instruction::local_variable::LocalVariables::<'a>::insert"
LV_FROM_PARAMS = "instruction::local_variable::LocalVariables::<'a>::from_params"


def run_selfname(ctx):
    res = RuleResult("R-SELFNAME", "when a function declaration runs, its own name never overwrites a parameter: in FunctionDeclaration::exec a "
                                   "LocalVariables::insert that can follow from_params lies behind `LocalVariables::get == None` (creation and "
                                   "folding bind the name in the enclosing scope, below the parameters - the three must agree; D27)")
    from ..owners import for_crate
    lib = ctx.facts.lib
    b = lib.body(DECL_EXEC)
    if not res.anchor(b is not None, DECL_EXEC):
        return res
    own = for_crate(lib)
    bodies = {hb.id: hb for hb in own.members(DECL_EXEC)}
    fp = [c for c in b.calls if c.callee == LV_FROM_PARAMS]
    ins = [c for hb in bodies.values() for c in hb.calls if c.callee == LV_INSERT]
    key = "selfname:FunctionDeclaration::exec"
    if not fp:
        # the scope is built some other way (e.g. own name first, parameters layered on top): nothing to overwrite here; the
        # sibling-agreement clauses of R-LAYER judge that form
        res.ok(key, b.where(), "no flat parameter scope (from_params) in exec")
        return res
    bad = []
    for c in ins:
        hb = c.body
        after = hb is not b or any(c.bb in b.reachable_after(f.bb) for f in fp)
        if not after:
            continue
        ok, why = _behind_none(lib, bodies, hb, c.bb, set())
        if not ok:
            bad.append(c)
    if bad:
        res.bad(key, "FunctionDeclaration::exec binds a name on top of the parameter scope without first asking whether a parameter has "
                     "that name: for `f := (f: (int, int)) -> int { (a, b) := f; .. }` the body is folded against a function-typed `f` "
                     "although the checker typed it as the parameter, and running the declaration panics", b.where(bad[0].line))
    else:
        res.ok(key, b.where(), "%d insert(s) after from_params, each behind a failed lookup" % len(ins))
    return res


# ----------------------------------------------------------------------------------------------------------------------
CODE_PARSE = "code::Code::parse"
IWS_NEW = "instruction::InstructionWithStr::new"
IWS_RECREATE = "instruction::InstructionWithStr::recreate"


def _root_place(b, o, depth=0):
    """the place a `&mut` operand finally points to, as a hashable (local, projection) - reborrows (`&mut *r`), copies of
    references and `deref_copy` temporaries are followed"""
    if not isinstance(o, dict) or o.get("l") is None:
        return None
    l, proj = o["l"], [(p.get("k"), p.get("i")) for p in o.get("p", [])]
    for _ in range(12):
        defs = b.def_sites(l)
        if l <= b.arg_count or len(defs) != 1 or defs[0][1] != "assign":
            break
        rv = defs[0][2]["rv"]
        if rv["k"] == "ref" and (not proj or proj[0][0] == "deref"):
            # a reference to P, (then dereferenced): the place is P . rest
            src = rv["place"]
            l, proj = src["l"], [(p.get("k"), p.get("i")) for p in src.get("p", [])] + proj[1:]
        elif rv["k"] in ("use", "copyderef") and isinstance(rv.get("o") or rv.get("place"), dict):
            src = rv.get("o") or rv.get("place")
            if src.get("l") is None:
                break
            l, proj = src["l"], [(p.get("k"), p.get("i")) for p in src.get("p", [])] + proj
        else:
            break
    return (l, tuple(proj))


def run_parsescope(ctx):
    res = RuleResult("R-PARSESCOPE", "Code::parse creates a top-level statement and folds it right away; the folding pass must not resolve the "
                                     "statement's reads against what the statement itself declares: the scope handed to "
                                     "InstructionWithStr::recreate is not the scope InstructionWithStr::new registered into, but a copy "
                                     "(LocalVariables::fork) taken before the statement was created (D28; root places of the two `&mut` "
                                     "arguments, dominance of the fork)")
    from ..owners import for_crate
    lib = ctx.facts.lib
    b0 = lib.body(CODE_PARSE)
    if not res.anchor(b0 is not None, CODE_PARSE):
        return res
    own = for_crate(lib)
    key = "parsescope:Code::parse"
    members = list(own.members(CODE_PARSE))
    news = [c for hb in members for c in hb.calls if c.callee == IWS_NEW]
    recs = [c for hb in members for c in hb.calls if c.callee == IWS_RECREATE or c.callee.endswith("::Recreate>::recreate")]
    found = bool(news and recs)
    for r in (recs if found else []):
        hb = r.body
        pr = _root_place(hb, r.args[1])
        forks = [c for c in hb.calls if c.callee.endswith("LocalVariables::<'a>::fork") and c.dest and pr is not None
                 and pr == (c.dest["l"], ())]
        # the copy must be taken before the statement is created
        # (a loop over the statements reaches the next statement's copy from the previous creation: dominance, not reachability)
        late = [c for c in forks for n in news if n.body is hb and not hb.dominates(c.bb, n.bb)]
        if not forks:
            res.bad(key, "Code::parse folds a statement against the scope its creation just registered into (the scope handed to recreate "
                         "is not a LocalVariables::fork copy): in `x := mut 1; x := (x, 2)` the read of x on the right is re-resolved to "
                         "the new declaration, x is recorded as ((mut int, int), int) and `x.0.0` passes the checker and panics",
                    hb.where(r.line))
        elif late:
            res.bad(key, "the copy of the scope that Code::parse folds a statement against is taken after the statement was created: it "
                         "already holds what the statement declares", hb.where(r.line))
        else:
            res.ok(key, hb.where(r.line), "folded against a fork taken before creation")
    if not found:
        # creation and folding no longer meet in Code::parse (e.g. no immediate folding): nothing to confuse
        res.ok(key, b0.where(), "Code::parse does not fold what it just created")
    return res


# ----------------------------------------------------------------------------------------------------------------------
RENDER_NODES = ["variable::Variable::string", "variable::Variable::debug", "variable::array::Array::string", "variable::r#mut::Mut::string"]
CELL_NODE = "variable::r#mut::Mut::string"


def _depth_increment(b, o, hops=0):
    """how many constant +k the u8 operand `o` is away from the depth the function / closure received (None = not derived)"""
    if not isinstance(o, dict) or o.get("l") is None or hops > 8:
        return None
    l = o["l"]
    proj = o.get("p", [])
    if l <= b.arg_count:
        return 0 if b.locals[l]["ty"] == "u8" or proj else None      # the depth parameter, or a captured copy in the closure environment
    if proj and any(p.get("k") == "field" for p in proj):
        # (_x.0) of a checked addition
        for _, k, d in b.def_sites(l):
            if k == "assign" and d["rv"]["k"] == "binop" and d["rv"].get("op") in ("AddWithOverflow", "Add", "AddUnchecked"):
                a, c = d["rv"]["a"], d["rv"]["b"]
                if isinstance(c, dict) and c.get("k") == "const":
                    base = _depth_increment(b, a, hops + 1)
                    return None if base is None else base + int(c.get("bits", "0"))
        return None
    defs = b.def_sites(l)
    if len(defs) != 1 or defs[0][1] != "assign":
        return None
    rv = defs[0][2]["rv"]
    if rv["k"] == "use":
        return _depth_increment(b, rv["o"], hops + 1)
    if rv["k"] == "binop" and rv.get("op") in ("Add", "AddUnchecked", "AddWithOverflow") and isinstance(rv["b"], dict) and rv["b"].get("k") == "const":
        base = _depth_increment(b, rv["a"], hops + 1)
        return None if base is None else base + int(rv["b"].get("bits", "0"))
    if rv["k"] in ("ref", "copyderef"):
        return _depth_increment(b, dict(rv["place"]), hops + 1)
    return None


def run_depthstep(ctx):
    res = RuleResult("R-DEPTHSTEP", "the elision budget of value rendering (`..` beyond a depth, there to stop cyclic cells) is spent one unit "
                                    "per container level: around every cycle of the rendering call graph that does not pass a cell the "
                                    "constant increments of the depth argument add up to at most 1, and the cut-off is not below the "
                                    "reviewed 5 - otherwise arrays / tuples of ordinary nesting print as `[[[..]]]`, which is not a value "
                                    "literal (increments read from the MIR of the renderers and their closures)")
    from ..owners import for_crate
    lib = ctx.facts.lib
    own = for_crate(lib)
    edges = []      # (from node, to node, increment, where)
    for n in RENDER_NODES:
        if not res.anchor(lib.body(n) is not None, n):
            return res
        for hb in own.members(n):
            for c in hb.calls:
                if c.callee not in RENDER_NODES:
                    continue
                u8 = [a for a in c.args if isinstance(a, dict) and a.get("l") is not None and hb.locals[a["l"]]["ty"] == "u8"]
                if len(u8) != 1:
                    res.broken.append("cannot decide: %s calls %s without a single u8 depth argument" % (hb.id, c.callee))
                    continue
                inc = _depth_increment(hb, u8[0])
                if inc is None:
                    res.broken.append("cannot decide: the depth handed from %s to %s is not the received depth plus a constant" % (hb.id, c.callee))
                    continue
                edges.append((n, c.callee, inc, hb.where(c.line)))
    res.floor(len(edges), 6, "depth-passing calls between the renderers")
    # simple cycles that avoid the cell renderer: DFS over the 3 remaining nodes
    best = {}
    nodes = [n for n in RENDER_NODES if n != CELL_NODE]

    def dfs(start, cur, total, path, seen):
        for a, bnode, inc, where in edges:
            if a != cur or bnode == CELL_NODE:
                continue
            if bnode == start:
                cyc = tuple(path + [(a, bnode, inc, where)])
                if total + inc > best.get(start, (-1, None))[0]:
                    best[start] = (total + inc, cyc)
            elif bnode not in seen:
                dfs(start, bnode, total + inc, path + [(a, bnode, inc, where)], seen | {bnode})
    for n in nodes:
        dfs(n, n, 0, [], {n})
    worst = max(best.values(), key=lambda x: x[0]) if best else None
    key = "depthstep:per-level"
    if worst is None:
        res.broken.append("anchor missing: no rendering cycle found (Variable::string -> ... -> Variable::string)")
    elif worst[0] > 1:
        res.bad(key, "one level of nesting spends %d units of the rendering depth budget (%s): values of ordinary nesting are cut off with "
                     "`..` and their printed text no longer parses back" % (worst[0], " -> ".join("%s(+%d)" % (e[1].rsplit("::", 2)[-2] + "::" + e[1].rsplit("::", 1)[-1], e[2]) for e in worst[1])),
                worst[1][0][3])
    else:
        res.ok(key, worst[1][0][3], "at most one unit per container level")
    # every cycle through the cell renderer spends at least one unit (cyclic cells terminate)
    cell_in = [e for e in edges if e[1] == CELL_NODE]
    cell_out = [e for e in edges if e[0] == CELL_NODE]
    key = "depthstep:cell-terminates"
    if cell_in and cell_out:
        if min(e[2] for e in cell_in) + min(e[2] for e in cell_out) >= 1:
            res.ok(key, cell_in[0][3], "a cell level spends at least one unit")
        else:
            res.bad(key, "rendering a cell spends no depth: a cell that (indirectly) contains itself is rendered forever", cell_in[0][3])
    # the cut-off
    b = lib.body("variable::Variable::string")
    cut = None
    for _, s in b.assigns():
        rv = s["rv"]
        if rv["k"] == "binop" and rv.get("op") in ("Gt", "Ge") and isinstance(rv["b"], dict) and rv["b"].get("k") == "const" and rv["b"].get("ty") == "u8" \
                and _depth_increment(b, rv["a"]) == 0:
            cut = int(rv["b"]["bits"]) + (1 if rv["op"] == "Gt" else 0)      # first depth that is elided
    key = "depthstep:cut-off"
    if not res.anchor(cut is not None, "the `depth > N` test of Variable::string"):
        return res
    if cut < 6:
        res.bad(key, "Variable::string elides from depth %d on (reviewed: 6): fewer than five container levels are printed in full" % cut, b.where())
    else:
        res.ok(key, b.where(), "elision starts at depth %d" % cut)
    return res


# ----------------------------------------------------------------------------------------------------------------------
TM_ = "variable::r#type::Type::matches"
# reviewed sites where a constant type is (correctly) the LEFT operand of `matches`
MATCHDIR_REVERSED = {
    "instruction::bin_op::return_type": (1, "`[!]` lies below every array type: the test asks whether the left operand is an array type"),
    "instruction::function::anonymous::AnonymousFunction::create_instruction": (1, "does `()` fit the declared result type (falling off the end yields `()`)"),
    "instruction::function::declaration::FunctionDeclaration::create_instruction": (1, "does `()` fit the declared result type"),
}


def _type_class(b, o, depth=0):
    """'const' (literal / static / promoted / aggregate of those), 'actual' (the type of a value or of an operand: return_type(),
    as_type(), a parameter), 'declared' (a `var_type` field, a declared signature), or '?'"""
    if not isinstance(o, dict):
        return {"?"}
    if o.get("k") == "const":
        return {"const"}
    l, proj = o.get("l"), o.get("p", [])
    if l is None or depth > 8:
        return {"?"}
    fields = [p.get("name") for p in proj if p.get("k") == "field" and p.get("name")]
    if any(f in ("var_type", "return_type", "params") for f in fields):
        return {"declared"}
    if l <= b.arg_count:
        return {"actual"}
    out = set()
    for _, k, dd in b.def_sites(l):
        if k == "call":
            fn = dd["func"].get("fn") or {}
            path = fn.get("resolved") or fn.get("path") or ""
            last = path.rsplit("::", 1)[-1]
            if last in ("return_type", "as_type") and not path.endswith("r#type::Type::return_type"):
                out.add("actual")
            elif last in ("deref", "clone", "borrow", "as_ref", "into", "from", "unwrap", "expect", "to_owned") and dd.get("args"):
                out |= _type_class(b, dd["args"][0], depth + 1)
            elif "__static_ref_initialize" in path or path.endswith("::LAZY"):
                out.add("const")
            else:
                out.add("?")
        else:
            rv = dd["rv"]
            if rv["k"] in ("use", "cast"):
                out |= _type_class(b, rv["o"], depth + 1)
            elif rv["k"] in ("ref", "copyderef"):
                out |= _type_class(b, dict(rv["place"]), depth + 1)
            elif rv["k"] == "agg":
                sub = set()
                for x in rv.get("ops", []):
                    sub |= _type_class(b, x, depth + 1)
                out |= (sub or {"const"})
            else:
                out.add("?")
    return out or {"?"}


def run_matchdir(ctx):
    res = RuleResult("R-MATCHDIR", "an admissibility test asks whether the operand's type lies below the expected type, not the reverse: outside "
                                   "the type algebra no `Type::matches` call has a constant type as its left operand and the type of an operand "
                                   "(return_type() / as_type() / a type parameter) as its right one - `int.matches(T)` is true for `int|float` "
                                   "and `any`, so the run-time downcast behind the test can fail. Three reviewed idioms (is-array test, `()` "
                                   "fits the declared result) are listed")
    from ..owners import for_crate
    lib = ctx.facts.lib
    own = for_crate(lib)
    n = 0
    used = {}
    for b in lib.bodies.values():
        if b.id.startswith(("variable::r#type", "variable::function_type", "variable::struct_type", "variable::multi_type")) or "::tests::" in b.id:
            continue
        if b.id.startswith("<variable::r#type::Type as "):
            continue
        for c in b.calls:
            if c.callee != TM_ or len(c.args) != 2:
                continue
            n += 1
            a, d = _type_class(b, c.args[0]), _type_class(b, c.args[1])
            owners = sorted(own.of(b.id))
            key = "matchdir:%s" % (owners[0] if owners else b.id)
            if a == {"const"} and "actual" in d:
                o = next((x for x in owners if x in MATCHDIR_REVERSED), None)
                if o is not None and used.get(o, 0) < MATCHDIR_REVERSED[o][0]:
                    used[o] = used.get(o, 0) + 1
                    res.ok(key + "|reversed", b.where(c.line), "reviewed: " + MATCHDIR_REVERSED[o][1])
                else:
                    res.bad(key, "%s tests `<constant type>.matches(<type of the operand>)`: the operands of the subtype test are the wrong way "
                                 "round - a constant like `int` lies below `int|float` and `any`, so an operand of such a type passes the check "
                                 "and the downcast the check licenses fails at run time" % b.id, b.where(c.line))
            else:
                res.ok(key, b.where(c.line), "%s against %s" % ("/".join(sorted(a)), "/".join(sorted(d))))
    res.floor(n, 25, "Type::matches calls outside the type algebra")
    res.floor(sum(used.values()), 0, "reviewed reversed tests in use")
    return res


# ----------------------------------------------------------------------------------------------------------------------
def run_unionall(ctx):
    res = RuleResult("R-UNIONALL", "an operand whose static type is a union may hold a value of any member: every check that walks the members "
                                   "of a union type (exhaustiveness of match, admissibility of an assignment through a union of cells, the "
                                   "structural predicates is_function / is_tuple / is_mut / has_field) quantifies with `all`. The only `any` "
                                   "over the members of a union is the right operand of Type::matches (R-VARIANCE judges that one)")
    from ..owners import for_crate
    lib = ctx.facts.lib
    own = for_crate(lib)
    n = 0
    for b in lib.bodies.values():
        if "::tests::" in b.id:
            continue
        for c in b.calls:
            last = c.path.rsplit("::", 1)[-1]
            if last not in ("all", "any") or not c.path.startswith("std::iter::Iterator"):
                continue
            st = (c.fn or {}).get("self_ty", "")
            if "hash_set::" not in st or "variable::r#type::Type" not in st:
                continue
            owners = sorted(own.of(b.id))
            if "variable::r#type::Type::matches" in owners:
                continue
            n += 1
            key = "unionall:%s" % (owners[0] if owners else b.id)
            if last == "all":
                res.ok(key, b.where(c.line), "all members")
            else:
                res.bad(key, "%s accepts a union type as soon as ONE of its members passes (`any` over the members): a value of another "
                             "member reaches code the check was meant to exclude (e.g. a `match` on int|string|float with arms for int and "
                             "string only is accepted and panics on a float)" % b.id, b.where(c.line))
    res.floor(n, 3, "universal checks over the members of a union")
    return res


# ----------------------------------------------------------------------------------------------------------------------
SLICE_CREATE = "instruction::slicing::Slicing::create"
NEW_EXPR = "instruction::InstructionWithStr::new_expression"
SLICE_PARTS = ("start", "stop", "step")


def _producing_calls(b, o, callee, depth=0, seen=None):
    """call sites of `callee` whose result flows (through ?, Some(..), moves, payload projections) into operand o"""
    seen = set() if seen is None else seen
    out = set()
    if not isinstance(o, dict) or o.get("l") is None or depth > 12 or o["l"] in seen:
        return out
    seen.add(o["l"])
    for _, k, d in b.def_sites(o["l"]):
        if k == "call":
            fn = d["func"].get("fn") or {}
            path = fn.get("resolved") or fn.get("path") or ""
            if path == callee:
                out.add(next(i for i, blk in enumerate(b.blocks) if blk["term"] is d))
            elif path.rsplit("::", 1)[-1] in ("branch", "from_residual", "into", "from", "unwrap") and d.get("args"):
                out |= _producing_calls(b, d["args"][0], callee, depth + 1, seen)
        else:
            rv = d["rv"]
            if rv["k"] in ("use", "cast"):
                out |= _producing_calls(b, rv["o"], callee, depth + 1, seen)
            elif rv["k"] in ("ref", "copyderef"):
                out |= _producing_calls(b, dict(rv["place"]), callee, depth + 1, seen)
            elif rv["k"] == "agg" and len(rv.get("ops", [])) == 1:
                out |= _producing_calls(b, rv["ops"][0], callee, depth + 1, seen)
    return out


def run_pairfield(ctx):
    res = RuleResult("R-PAIRFIELD", "the three bounds of a slice are told apart by the grammar rule of their pair (`start`, `stop`, `step`): in "
                                    "Slicing::create every expression built from a pair lands in the position of the bound whose rule the pair "
                                    "can have at that call site (rule sets from the R-PAIRFLOW abstract interpretation, refined by the "
                                    "`as_rule()` guards of the arm; positions by def-use into the (start, stop, step) tuple and from there "
                                    "into the fields of Slicing)")
    from .pairflowrule import make, ROOTS
    from .. import tablesrc
    lib = ctx.facts.lib
    b = lib.body(SLICE_CREATE)
    if not res.anchor(b is not None, SLICE_CREATE):
        return res
    try:
        pf, _ = make(lib, ctx.facts)
    except tablesrc.TableError as e:
        res.anchor(False, str(e))
        return res
    for r in ROOTS:
        rb = lib.body(r)
        if rb is not None:
            pf.analyse(r, [None] * rb.arg_count, [], force=True)
    # (1) the 3-tuples whose components become the fields start / stop / step, in this order
    tuples = [(i, s) for i, s in b.assigns() if s["rv"]["k"] == "agg" and s["rv"].get("agg") == "tuple" and len(s["rv"].get("ops", [])) == 3
              and not s["place"]["p"] and "InstructionWithStr" in b.locals[s["place"]["l"]]["ty"]]
    if not res.anchor(bool(tuples), "the (start, stop, step) tuple of Slicing::create"):
        return res
    tl = {s["place"]["l"] for _, s in tuples}
    order_ok = True
    aggs = [(i, s) for i, s in b.assigns() if s["rv"]["k"] == "agg" and s["rv"].get("adt", "").endswith("slicing::Slicing")]
    if not res.anchor(bool(aggs), "the Slicing aggregate in Slicing::create"):
        return res
    for _, s in aggs:
        rv = s["rv"]
        for pos, name in enumerate(SLICE_PARTS):
            o = rv["ops"][rv["fields"].index(name)]
            # follow moves back to a projection `.pos` of the tuple
            cur, hit = o, None
            for _ in range(6):
                if not isinstance(cur, dict) or cur.get("l") is None:
                    break
                fl = [p.get("i") for p in cur.get("p", []) if p.get("k") == "field"]
                if cur["l"] in tl and fl:
                    hit = fl[0]
                    break
                ds = [d for _, k, d in b.def_sites(cur["l"]) if k == "assign" and d["rv"]["k"] in ("use", "cast")]
                if len(ds) != 1:
                    break
                cur = ds[0]["rv"]["o"]
            if hit is None:
                res.broken.append("cannot decide: field `%s` of Slicing is not a component of the bounds tuple" % name)
                order_ok = False
            elif hit != pos:
                res.bad("pairfield:Slicing.%s" % name, "field `%s` of Slicing is filled from component %d of the bounds tuple" % (name, hit), b.where(s.get("line")))
                order_ok = False
    if not order_ok:
        return res
    # (2) every expression in component i is built from a pair that can only have rule SLICE_PARTS[i]
    n = 0
    for _, s in tuples:
        for pos, o in enumerate(s["rv"]["ops"]):
            for bb in sorted(_producing_calls(b, o, NEW_EXPR)):
                rules = pf.sites.get((b.id, bb, NEW_EXPR))
                if rules is None:
                    continue        # the abstract interpretation never reaches this call: no child sequence of the grammar gets here
                n += 1
                key = "pairfield:%s|%s" % (SLICE_PARTS[pos], "+".join(sorted(rules)))
                if set(rules) == {SLICE_PARTS[pos]}:
                    res.ok(key, b.where(b.blocks[bb]["term"].get("line")), "a `%s` pair becomes the %s bound" % (SLICE_PARTS[pos], SLICE_PARTS[pos]))
                else:
                    res.bad(key, "Slicing::create builds the `%s` bound from a pair that can be %s (for some slice form the guards of this arm "
                                 "admit): e.g. `s[:b:c]` evaluated as `s[b::c]` - wrong elements, silently"
                            % (SLICE_PARTS[pos], " / ".join("`%s`" % r for r in sorted(rules))), b.where(b.blocks[bb]["term"].get("line")))
    res.floor(n, 3, "bound expressions built from pairs")
    return res


# ----------------------------------------------------------------------------------------------------------------------
SLICE_EXEC = "<instruction::slicing::Slicing as instruction::Exec>::exec"


def run_slicemin(ctx):
    res = RuleResult("R-SLICEMIN", "slyce negates negative bounds, and MIN_INT has no magnitude: every i64 -> isize conversion of a slice "
                                   "bound in Slicing::exec (and its helpers) takes a value that went through Ord::max / clamp first (D32)")
    from ..owners import for_crate
    lib = ctx.facts.lib
    if not res.anchor(lib.body(SLICE_EXEC) is not None, SLICE_EXEC):
        return res
    own = for_crate(lib)
    members = list(own.members(SLICE_EXEC)) + [b for b in lib.bodies.values() if b.id.startswith("instruction::slicing::Slicing::exec_index")]
    seen = set()
    n = 0
    for hb in members:
        if hb.id in seen:
            continue
        seen.add(hb.id)
        for _, s in hb.assigns():
            rv = s["rv"]
            if rv["k"] != "cast" or "IntToInt" not in rv.get("kind", "") or rv.get("src") != "i64" or rv.get("dst") != "isize":
                continue
            n += 1
            o = rv["o"]
            ok = False
            cur = o
            for _ in range(5):
                if not isinstance(cur, dict) or cur.get("l") is None:
                    break
                ds = hb.def_sites(cur["l"])
                if any(k == "call" and ((d["func"].get("fn") or {}).get("path", "").rsplit("::", 1)[-1] in ("max", "clamp")) for _, k, d in ds):
                    ok = True
                    break
                nxt = [d["rv"]["o"] for _, k, d in ds if k == "assign" and d["rv"]["k"] == "use"]
                if len(nxt) != 1:
                    break
                cur = nxt[0]
            key = "slicemin:%s" % hb.id.split("::{closure")[0]
            if ok:
                res.ok(key, hb.where(s.get("line")), "bounded below before the conversion")
            else:
                res.bad(key, "a slice bound is handed to slyce as it is: for MIN_INT slyce's negation overflows - "
                             "`[1, 2, 3][-9223372036854775807 - 1:]` panics instead of yielding the whole array", hb.where(s.get("line")))
    res.floor(n, 1, "i64 -> isize conversions of slice bounds")
    return res


# ----------------------------------------------------------------------------------------------------------------------
MIN_LEN = "variable::r#type::Type::min_tuple_len"


def _origin(b, o, depth=0):
    """the parameter (or payload projection) a scalar operand is a copy of: (local, projection) after following moves / copies"""
    if not isinstance(o, dict) or o.get("l") is None:
        return None
    l, proj = o["l"], tuple((p.get("k"), p.get("variant"), p.get("i")) for p in o.get("p", []))
    if proj or l <= b.arg_count or depth > 8:
        return (l, proj)
    ds = b.def_sites(l)
    if len(ds) == 1 and ds[0][1] == "assign" and ds[0][2]["rv"]["k"] == "use":
        return _origin(b, ds[0][2]["rv"]["o"], depth + 1)
    return (l, proj)


def _derives_from_next(b, o, depth=0, seen=None):
    seen = set() if seen is None else seen
    if not isinstance(o, dict) or o.get("l") is None or depth > 10 or o["l"] in seen:
        return False
    seen.add(o["l"])
    for _, k, d in b.def_sites(o["l"]):
        if k == "call":
            path = (d["func"].get("fn") or {}).get("path", "")
            if path == "std::iter::Iterator::next":
                return True
            if d.get("args") and _derives_from_next(b, d["args"][0], depth + 1, seen):
                return True
        else:
            rv = d["rv"]
            for key in ("o", "place"):
                if isinstance(rv.get(key), dict) and _derives_from_next(b, dict(rv[key]), depth + 1, seen):
                    return True
            for x in rv.get("ops", []):
                if _derives_from_next(b, x, depth + 1, seen):
                    return True
    return False


def run_seedfold(ctx):
    res = RuleResult("R-SEEDFOLD", "a fold over the members of a union that is seeded with the first member in hash order must treat that "
                                   "member like every other: the combiner is a function of (accumulator, current) only - it captures "
                                   "nothing that derives from the `next()` that produced the seed. And the one fold that is not symmetric by "
                                   "construction, Type::min_tuple_len, keeps the smaller of the two lengths (the bound that licenses "
                                   "`t.N` on a union of tuples)")
    lib = ctx.facts.lib
    n = 0
    for b in lib.bodies.values():
        if "::tests::" in b.id or not b.id.startswith("variable::"):
            continue
        for c in b.calls:
            last = c.path.rsplit("::", 1)[-1]
            if last not in ("try_fold", "fold", "reduce") or not c.path.startswith("std::iter::Iterator"):
                continue
            st = (c.fn or {}).get("self_ty", "")
            if "hash_set::" not in st and "hash_map::" not in st:
                continue
            n += 1
            key = "seedfold:%s" % b.id
            bad = None
            for a in c.args[1:]:
                if not isinstance(a, dict) or a.get("l") is None:
                    continue
                for _, k, d in b.def_sites(a["l"]):
                    if k == "assign" and d["rv"]["k"] == "agg" and d["rv"].get("agg") == "closure":
                        for cap in d["rv"].get("ops", []):
                            if _derives_from_next(b, cap):
                                bad = d["rv"]["closure"]
            if bad:
                res.bad(key, "the combiner %s of the fold in %s captures a value taken from the first member in hash order: the result "
                             "depends on which member the hash set yields first (different runs of the same program disagree)" % (bad, b.id), b.where(c.line))
            else:
                res.ok(key, b.where(c.line), "combiner depends on (acc, curr) only")
    res.floor(n, 8, "seeded folds over hash containers in the type algebra")
    # min_tuple_len keeps the smaller length
    b = lib.body(MIN_LEN)
    if res.anchor(b is not None, MIN_LEN):
        key = "seedfold:min_tuple_len|keeps-smaller"
        bodies = [b] + list(lib.closures_of(MIN_LEN))
        calls = [c.callee.rsplit("::", 1)[-1] for hb in bodies for c in hb.calls]
        verdict = None
        if "max" in calls:
            verdict = "calls `max`"
        elif "min" in calls:
            verdict = ""
        else:
            for hb in bodies:
                for i, s in hb.assigns():
                    rv = s["rv"]
                    if rv["k"] != "binop" or rv.get("op") not in ("Lt", "Le", "Gt", "Ge") or rv.get("ty") != "usize":
                        continue
                    sw = next((blk["term"] for blk in hb.blocks if blk["term"]["k"] == "switch" and isinstance(blk["term"]["discr"], dict)
                               and blk["term"]["discr"].get("l") == s["place"]["l"]), None)
                    if sw is None:
                        continue
                    true_t = sw["otherwise"] if [str(v) for v, _ in sw["targets"]] == ["0"] else dict((str(v), t) for v, t in sw["targets"]).get("1")
                    smaller = rv["a"] if rv["op"] in ("Lt", "Le") else rv["b"]
                    want = _origin(hb, smaller)
                    got = None
                    for blk in [true_t] + list(hb.succ[true_t]):
                        for st in hb.blocks[blk]["stmts"]:
                            if st["k"] == "assign" and st["place"]["l"] == 0 and not st["place"]["p"]:
                                r2 = st["rv"]
                                src = r2["ops"][0] if r2["k"] == "agg" and r2.get("ops") else r2.get("o")
                                got = _origin(hb, src)
                        if got is not None:
                            break
                    verdict = "" if (got is not None and got == want) else "when the comparison holds it does not answer with the smaller operand"
        if verdict is None:
            res.broken.append("cannot decide: Type::min_tuple_len neither calls min nor compares two lengths")
        elif verdict:
            res.bad(key, "Type::min_tuple_len does not keep the smaller length (%s): `t.N` is admitted for an index that only the longest "
                         "member of a union of tuples has, and the result type (or the access) panics" % verdict, b.where())
        else:
            res.ok(key, b.where(), "keeps the smaller length")
    return res
