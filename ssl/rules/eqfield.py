"""R-EQFIELD: value equality looks at content only (never at the stored/static element type), functions and cells by identity."""
from ..engine import RuleResult
from ..model import places_read

ARRAY_EQ = "<variable::array::Array as std::cmp::PartialEq>::eq"
VAR_EQ = "<variable::Variable as std::cmp::PartialEq>::eq"
TYPE_EQ = "<variable::r#type::Type as std::cmp::PartialEq>::eq"
USERS = {   # bodies that implement `==`, `!=` and match value arms: must compare through Variable's PartialEq
    "instruction::bin_op::equal::exec": ("eq",),
    "instruction::bin_op::not_equal::exec": ("ne", "eq"),
    "instruction::control_flow::match_arm::MatchArm::covers": ("eq",),
}


def run(ctx):
    res = RuleResult("R-EQFIELD", "Array equality reads `elements` only; Variable equality compares Function/Mut by Arc::ptr_eq; "
                                  "`ne` is not overridden; ==, != and match value arms go through Variable's PartialEq")
    lib = ctx.facts.lib
    b = lib.body(ARRAY_EQ)
    if res.anchor(b is not None, ARRAY_EQ):
        reach = lib.reach([ARRAY_EQ], cut=[VAR_EQ])
        reads_type = [pl for _, pl, _ in places_read(b) if any(e["k"] == "field" and e.get("name") == "element_type" for e in pl["p"])]
        reads_elems = [pl for _, pl, _ in places_read(b) if any(e["k"] == "field" and e.get("name") == "elements" for e in pl["p"])]
        if TYPE_EQ in reach or reads_type:
            res.bad("array-eq:element_type", "Array equality compares the stored element type (%s): arrays with the same elements "
                                             "produced by different operations (literal, partition, slice, collect) compare unequal"
                    % ("calls Type::eq" if TYPE_EQ in reach else "reads field element_type"), b.where())
        else:
            res.ok("array-eq:element_type", b.where(), "element_type is not read")
        if reads_elems:
            res.ok("array-eq:elements", b.where())
        else:
            res.bad("array-eq:elements", "Array equality no longer reads the elements", b.where())
    # identity shortcuts: `Arc::ptr_eq(a, b) || a == b` makes a value that contains NaN equal to its aliases but not to a
    # copy with the same content (that is why `impl Eq for Variable` was removed, D18). Wherever a value is compared, identity
    # may decide only for functions and cells.
    shortcuts = []
    for eb in lib.bodies.values():
        if "::tests::" in eb.id:
            continue
        if not (eb.id.endswith("PartialEq>::eq") or eb.id.endswith("PartialEq>::ne") or "::eq::{closure" in eb.id) or not eb.id.startswith("<variable::"):
            continue
        for c in eb.calls:
            if c.callee.endswith("::ptr_eq") and "function::Function" not in c.full and "r#mut::Mut" not in c.full:
                shortcuts.append((eb, c))
    if shortcuts:
        eb, c = shortcuts[0]
        res.bad("eq:identity-shortcut", "%s lets pointer identity (%s) decide the equality of a content value: an array / tuple / struct that "
                                        "contains NaN then equals its aliases but not an equal copy" % (eb.id, c.full), eb.where(c.line))
    else:
        res.ok("eq:identity-shortcut", "", "no pointer-identity shortcut in the equality of content values")
    b = lib.body(VAR_EQ)
    if res.anchor(b is not None, VAR_EQ):
        ptr = [c for c in b.calls if c.callee == "std::sync::Arc::<T, A>::ptr_eq"]
        kinds = sorted(c.full for c in ptr)
        want = sorted(["std::sync::Arc::<function::Function>::ptr_eq", "std::sync::Arc::<variable::r#mut::Mut>::ptr_eq"])
        if kinds == want:
            res.ok("var-eq:identity", b.where(), "Function and Mut compared with Arc::ptr_eq")
        else:
            res.bad("var-eq:identity", "Variable equality must compare exactly Function and Mut by identity (Arc::ptr_eq); found %s" % kinds, b.where())
        structural = [c.callee for c in b.calls if c.callee.endswith("PartialEq>::eq") and ("function::Function" in c.full or "r#mut::Mut" in c.full)]
        if structural:
            res.bad("var-eq:structural", "Variable equality compares functions / cells structurally: %s" % structural, b.where())
        else:
            res.ok("var-eq:structural", b.where())
        # content kinds compared through the payload's own PartialEq
        payload = sorted({c.full for c in b.calls if c.callee.endswith("::eq") and "ptr_eq" not in c.callee})
        res.ok("var-eq:payload", b.where(), "; ".join(payload)[:300])
        if any("variable::r#type::Type" in p for p in payload):
            res.bad("var-eq:type", "Variable equality compares types", b.where())
    for tr_self in ("variable::Variable", "variable::array::Array"):
        ims = [im for im in lib.impls if im.get("trait") == "std::cmp::PartialEq" and im.get("self_ty") == tr_self]
        if res.anchor(len(ims) == 1, "impl PartialEq for " + tr_self):
            names = [it["name"] for it in ims[0]["items"]]
            if names == ["eq"]:
                res.ok("ne-default:" + tr_self, "", "`!=` is the negation of `==` (ne not overridden)")
            else:
                res.bad("ne-default:" + tr_self, "impl PartialEq for %s overrides %s" % (tr_self, names), "%s:%s" % (ims[0]["file"], ims[0]["line"]))
    # the Eq marker promises reflexivity; std uses it to compare Arc<T: Eq> by pointer first
    for tr_self in ("variable::Variable", "variable::array::Array"):
        eqs = [im for im in lib.impls if im.get("trait") == "std::cmp::Eq" and im.get("self_ty") == tr_self]
        key = "eq-marker:" + tr_self
        if eqs:
            res.bad(key, "%s implements the Eq marker although it can hold a float: std then compares Arc-shared values (struct fields "
                         "map, slices) by pointer first, so a value containing NaN equals itself in some containers and not in others"
                    % tr_self, "%s:%s" % (eqs[0]["file"], eqs[0]["line"]))
        else:
            res.ok(key, "", "no Eq marker: element-wise IEEE comparison everywhere")
    # identity of function values: a Function struct is never copied on the run path (a copy is a new identity under
    # Arc::ptr_eq); the reviewed re-tagging sites use Arc::unwrap_or_clone on a value nobody else holds yet
    FCLONE = "<function::Function as std::clone::Clone>::clone"
    direct = sorted(lib.callers.get(FCLONE, ()))
    if direct:
        for c in direct:
            cb = lib.body(c)
            res.bad("fn-identity:clone:" + c, "%s copies a Function value (Function::clone): the copy is a different function under `==` "
                                              "(identity), e.g. a function's own name inside its body no longer equals the caller's reference" % c,
                    cb.where() if cb else "")
    else:
        res.ok("fn-identity:no-struct-clone", "", "no direct call of Function::clone in the crate")
    ewa = lib.body("function::Function::exec_with_args")
    if res.anchor(ewa is not None, "Function::exec_with_args"):
        from ..owners import for_crate
        arc_clone = [c for hb in for_crate(lib).members("function::Function::exec_with_args") for c in hb.calls
                     if c.full == "<std::sync::Arc<function::Function> as std::clone::Clone>::clone"]
        if arc_clone:
            res.ok("fn-identity:own-name", ewa.where(), "the function's own name is bound to a clone of the Arc (same identity)")
        else:
            res.bad("fn-identity:own-name", "exec_with_args no longer binds the function's own name to a clone of the same Arc<Function>", ewa.where())
    from ..owners import for_crate
    own = for_crate(lib)
    for u, methods in USERS.items():
        b = lib.body(u)
        if not res.anchor(b is not None, u):
            continue
        # the function and the helpers / closures that belong to it alone
        cmp_calls = [c for hb in own.cluster(u) for c in hb.calls if c.path in ("std::cmp::PartialEq::eq", "std::cmp::PartialEq::ne")]
        good = [c for c in cmp_calls if c.self_ty in ("variable::Variable", "&variable::Variable") and c.path.rsplit("::", 1)[-1] in methods]
        other = [c for c in cmp_calls if c not in good]
        if good and not other:
            res.ok("user:" + u, b.where(), "compares with Variable::%s" % "/".join(sorted({c.path.rsplit('::', 1)[-1] for c in good})))
        else:
            res.bad("user:" + u, "%s must compare values with Variable's PartialEq only; found %s" % (u, [(c.path, c.self_ty) for c in cmp_calls]), b.where())
    return res
