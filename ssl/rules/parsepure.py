"""R-PARSEPURE: parsing, checking and folding never execute instructions; cells are only created by executing `mut`."""
import re

from ..engine import RuleResult
from ..model import aggregates

EXEC_TARGETS = ("<instruction::Instruction as instruction::Exec>::exec", "<instruction::InstructionWithStr as instruction::Exec>::exec",
                "interpreter::Interpreter::<'a>::exec", "function::Function::exec", "function::Function::exec_with_args",
                "code::Code::exec", "code::Code::exec_unscoped")
CELL = "variable::r#mut::Mut"
CELL_MAKERS = {"<instruction::r#mut::Mut as instruction::Exec>::exec": "executing a `mut` expression",
               "variable::Variable::of_type": "default value of a `mut T` type (iterator exhaustion / type filter default)"}


def roots(lib):
    rs = ["code::Code::parse", "<variable::Variable as std::str::FromStr>::from_str", "<variable::r#type::Type as std::str::FromStr>::from_str",
          "instruction::InstructionWithStr::new", "instruction::Instruction::new",
          "instruction::local_variable::LocalVariables::<'a>::load", "instruction::local_variable::LocalVariables::<'a>::parse_input"]
    for b in lib.bodies.values():
        if b.impl_trait == "instruction::Recreate" and b.name == "recreate":
            rs.append(b.id)
        elif b.kind in ("Fn", "AssocFn") and b.id.startswith("instruction::") and (b.name.startswith("create") or b.name in ("new", "new_expression", "new_ident")):
            rs.append(b.id)
    return sorted(set(rs))


def run(ctx):
    res = RuleResult("R-PARSEPURE", "from Code::parse, every create*/new* of the instruction layer and every Recreate::recreate no "
                                    "path of the call graph reaches Exec::exec / Function::exec* / Interpreter::exec (edges through "
                                    "lazy_static initialisers cut); variable::Mut is constructed only by Mut::exec and Variable::of_type")
    lib = ctx.facts.lib
    rs = roots(lib)
    res.floor(len(rs), 60, "roots")
    for t in EXEC_TARGETS:
        res.anchor(lib.body(t) is not None, t)
    cuts = []

    def cut_edge(u, v):
        if v.endswith("::__static_ref_initialize") or v.endswith(" as lazy_static::LazyStatic>::initialize"):
            cuts.append((u, v))
            return True
        return False
    reach = lib.reach(rs, cut_edge=cut_edge)
    hit = [t for t in reach if t in EXEC_TARGETS or t.endswith(" as instruction::Exec>::exec")]
    by_root = {}
    for t in hit:
        ch = lib.chain(reach, t)
        by_root.setdefault(ch[0], []).append(ch)
    for r in rs:
        key = "pure:" + r
        if r in by_root:
            ch = min(by_root[r], key=len)
            b = lib.body(r)
            res.bad(key, "parse/fold-time function %s reaches instruction execution: %s - folding could run user code, create cells or "
                         "pull iterators while parsing" % (r, " -> ".join(ch)), b.where() if b else "")
        else:
            res.ok(key, "", "")
    res.stats["lazy_static_edges_cut"] = len({v for _, v in cuts})
    res.info.append("cut edges (embedded declarations evaluated once, touching no program state): %s" % sorted({v for _, v in cuts})[:20])
    # who constructs a cell
    for b in lib.bodies.values():
        for _, s in aggregates(b, CELL):
            key = "cell-maker:" + b.id
            if b.id in CELL_MAKERS:
                res.ok(key, b.where(s.get("line")), CELL_MAKERS[b.id])
            else:
                res.bad(key, "%s constructs a mutable cell: cells must be fresh per evaluation of a `mut` expression, never built "
                             "while parsing / folding or stored in Code" % b.id, b.where(s.get("line")))
    for m in CELL_MAKERS:
        res.anchor(any(i["key"] == "cell-maker:" + m for i in res.instances), "cell constructor " + m)
    # Variable::of_type allocates a cell for `mut T`: a default value built while parsing / folding is stored in the Code and
    # shared by every execution (and by every evaluation of that expression) instead of being fresh
    key = "pure:of_type-at-parse-time"
    if "variable::Variable::of_type" in reach:
        ch = lib.chain(reach, "variable::Variable::of_type")
        b = lib.body(ch[0])
        res.bad(key, "parse/fold-time function %s builds a default value with Variable::of_type (%s): for a type containing `mut` "
                     "that allocates a cell while parsing, which is then shared by all executions of the Code" % (ch[0], " -> ".join(ch)),
                b.where() if b else "")
    else:
        res.ok(key, "", "Variable::of_type is reachable only from execution")
    # reading or writing a cell while parsing / folding: the shell parses a line against the VALUES its session holds, a program
    # parsed as a whole only against types - a fold that looks inside a cell bakes in a content that the other route reads later
    key = "pure:cell-access-at-parse-time"

    def cut2(u, v):
        return cut_edge(u, v) or v == "variable::r#mut::Mut::string"      # rendering a value for an error message
    reach2 = lib.reach(rs, cut_edge=cut2)
    locks = sorted(t for t in reach2 if re.search(r"(RwLock::<T>::(read|write|try_read|try_write)|Mutex::<T>::(lock|try_lock))$", t))
    if locks:
        ch = lib.chain(reach2, locks[0])
        b = lib.body(ch[0])
        res.bad(key, "parse/fold-time function %s can lock a mutable cell (%s): its content is read (or written) while the program is "
                     "parsed - a constant index / operand folded through a cell keeps the content of that moment, and the statement-by-"
                     "statement route (which parses against live values) differs from the batch route" % (ch[0], " -> ".join(ch)),
                b.where() if b else "")
    else:
        res.ok(key, "", "no lock acquisition reachable from parsing / folding (rendering apart)")
    return res
