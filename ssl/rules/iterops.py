"""R-ITERSRC / R-ITERLOOP / R-ITERPICK: the iterator operators (property C11), decided on the code that implements them.

Most iterator operators are written in SimpleSL itself, embedded in the Rust sources (MAP, FILTER, ITER, the TypeFilter
template, stdlib/operators.rs). ssl/snippets.py recovers those fragments from the MIR, parses them with the repository's
grammar, and ssl/sslflow.py enumerates their paths symbolically. The obligations below are stated on those paths
(R-ITERSRC); the three operators driven by Rust loops (`$ init f`, `$]`, `\\`) get the same obligations on the MIR CFG
(R-ITERLOOP); which fragment an operator runs is recovered from the dispatch code (R-ITERPICK).

What is decided (necessary conditions of C11, each visible in the shape of the code):
  pull-once        every loop iteration / call pulls its source at most once, and never again after the source said "end"
  guarded          a callback (f, p) is applied only to an element of a pull whose `con` is known true - never to the
                   payload of the end marker
  apply-once       at most one application of the callback per pulled element
  examined         an element is not dropped (loop continues) without having been tested
  lazy             an adaptor (function that returns a closure) pulls / applies nothing until its result is called
  wiring           map returns (true, f(x)); filter returns x exactly when p(x) (type test for `? T`); all / any return the
                   deciding constant at the first deciding element and the identity at the end; the fold operators use the
                   documented identity and operator in (acc, element) order; `~` advances its cursor once per element,
                   starts at index 0, steps by 1 and tests the bound before indexing
What is not decided: that the values computed equal the sequence definition for every input (value level)."""
from ..engine import RuleResult
from ..model import enum_switches, arm_region, calls_in, op_local
from .. import snippets, sslast, sslflow, tablesrc
from .export import single_def

OPS = ("bin_operator::BinOperator", "unary_operator::UnaryOperator")
# the folds the property text gives: operator variant -> (combiner operator rule, identity per element type)
FOLDS = {"BitAnd": ("bitwise_and", {"int": "allones"}), "BitOr": ("bitwise_or", {"int": 0}),
         "Sum": ("add", {"int": 0, "float": 0.0, "string": ""}), "Product": ("multiply", {"int": 1, "float": 1.0})}
DECIDERS = {"All": (False, False, True), "Any": (True, True, False)}    # deciding element value, result then, result at the end


# ---------------------------------------------------------------- which fragment implements which operator
def wrapper_users(lib, static):
    """functions that obtain the value of lazy static `static` (through its From<..> for Variable wrapper if any)"""
    deref = "<%s as std::ops::Deref>::deref" % static
    users = [b for b in lib.bodies.values() if any(c.callee == deref for c in b.calls) and not b.id.startswith("<%s as" % static)]
    out = []
    for u in users:
        if "std::convert::From<" in u.id and u.id.endswith("for variable::Variable>::from"):
            for b in lib.bodies.values():
                if b.id.endswith("__static_ref_initialize"):
                    continue            # the `Operators` struct of std only re-exports the functions
                for c in b.calls:
                    if c.callee == u.id:
                        out.append((b, c))
        else:
            for c in u.calls:
                if c.callee == deref:
                    out.append((u, c))
    return out


def variants_calling(lib, fid):
    """operator variants whose match arm (in any function) calls fid"""
    vs = set()
    for b in lib.bodies.values():
        if not any(c.callee == fid for c in b.calls):
            continue
        for enum in OPS:
            for sw in enum_switches(b, enum):
                for v, tgt in sw["arms"].items():
                    if any(c.callee == fid for c in calls_in(b, arm_region(b, tgt))):
                        vs.add(v)
    return vs


def const_variant_arg(b, o, enum):
    """variant of `enum` the operand denotes (constant, promoted reference or unit aggregate)"""
    for _ in range(6):
        if not isinstance(o, dict):
            return None
        if o.get("k") == "const":
            if "promoted" in o:
                try:
                    pb = b.raw["promoted"][int(o["promoted"])]
                except (KeyError, IndexError, ValueError):
                    return None
                vs = {st["rv"]["variant"] for blk in pb["blocks"] for st in blk["stmts"]
                      if st["k"] == "assign" and st["rv"]["k"] == "agg" and st["rv"].get("adt") == enum}
                return next(iter(vs)) if len(vs) == 1 else None
            v = o.get("val") or ""
            return v.rsplit("::", 1)[-1] if enum.rsplit("::", 1)[-1] in v else None
        l = op_local(o)
        d = single_def(b, l) if l is not None else None
        if d is None or d[1] != "assign":
            return None
        rv = d[2]["rv"]
        if rv["k"] == "agg" and rv.get("adt") == enum:
            return rv["variant"]
        if rv["k"] == "use":
            o = rv["o"]
        elif rv["k"] in ("ref", "copyderef"):
            o = {"k": "copy", "l": rv["place"]["l"], "p": []}
        else:
            return None
    return None


def eq_selection(lib, b, sites):
    """`if op == UnaryOperator::X { A } else { B }`: {static: variant}, or None when the function does not select that way"""
    enum = "unary_operator::UnaryOperator"
    eqs = [c for c in b.calls if c.callee == "<%s as std::cmp::PartialEq>::eq" % enum]
    if len(eqs) != 1:
        return None
    eq = eqs[0]
    v = None
    for a in eq.args:
        v = v or const_variant_arg(b, a, enum)
    tgt = eq.term.get("target")
    if v is None or tgt is None or b.blocks[tgt]["term"]["k"] != "switch":
        return None
    sw = b.blocks[tgt]["term"]
    false_t = [t for val, t in sw["targets"] if val == "0"]
    if len(false_t) != 1:
        return None
    true_region = set(arm_region(b, sw["otherwise"]))
    false_region = set(arm_region(b, false_t[0]))
    # the other variant: what the callers pass besides v
    passed = set()
    for cb in lib.bodies.values():
        for c in cb.calls:
            if c.callee == b.id:
                for a in c.args:
                    pv = const_variant_arg(cb, a, enum)
                    if pv:
                        passed.add(pv)
    others = passed - {v}
    out = {}
    for static, c in sites:
        if c.bb in true_region:
            out[static] = v
        elif c.bb in false_region and len(others) == 1:
            out[static] = next(iter(others))
        else:
            return None
    return out


def operator_of_statics(lib, statics):
    """{static: operator variant | None}"""
    by_user = {}
    for s in statics:
        for u, c in wrapper_users(lib, s):
            by_user.setdefault(u.id, []).append((s, c))
    out = {}
    for uid, sites in by_user.items():
        u = lib.body(uid)
        names = {s for s, _ in sites}
        sel = eq_selection(lib, u, sites) if len(names) > 1 else None
        if sel:
            for s, v in sel.items():
                out.setdefault(s, set()).add(v)
            continue
        vs = variants_calling(lib, uid)
        for s in names:
            out.setdefault(s, set()).update(vs)
    return {s: (next(iter(v)) if len(v) == 1 else None) for s, v in out.items()}


# ---------------------------------------------------------------- obligations on the paths of one function
def is_source_type(ty):
    t = ty.replace(" ", "")
    return t.startswith("()->(bool,")


def element_type(ty):
    t = ty.replace(" ", "")
    return t[len("()->(bool,"):-1] if is_source_type(ty) else None


class FnReport:
    def __init__(self):
        self.bad = []       # (clause, message)
        self.stats = {"paths": 0, "segments": 0, "pulls": 0, "applies": 0}


def check_paths(done, loopbacks, rep, where):
    """the generic obligations (pull-once, after-end, guarded, apply-once, examined) on every path"""
    for p, ret in list(done) + [(q, None) for q in loopbacks]:
        rep.stats["paths"] += 1
        conds = {}
        pulls = []          # pulls so far on the path
        seg_pulls = {}      # source -> count in the current segment
        seg_applies = {}
        seg_events = []
        rep.stats["segments"] += 1
        for e in p.events:
            k = e[0]
            if k == "head":
                seg_pulls, seg_applies, seg_events = {}, {}, []
                rep.stats["segments"] += 1
                continue
            seg_events.append(e)
            if k == "assume":
                conds[e[1]] = e[2]
            elif k == "carried":
                pulls.append(("pull", e[1], e[2]))      # the element pulled at the end of the previous iteration
            elif k == "pull":
                rep.stats["pulls"] += 1
                pv = ("pull", e[1], e[2])
                ended = [q for q in pulls if q[2] == e[2] and conds.get(("proj", q, 0)) is False]
                if ended:
                    rep.bad.append(("after-end", "%s: source `%s` is pulled again after it reported the end" % (where, e[2][1])))
                seg_pulls[e[2]] = seg_pulls.get(e[2], 0) + 1
                if seg_pulls[e[2]] > 1:
                    rep.bad.append(("pull-once", "%s: source `%s` is pulled %d times in one iteration / call (an element is skipped or "
                                    "consumed twice)" % (where, e[2][1], seg_pulls[e[2]])))
                pulls.append(pv)
            elif k == "apply":
                rep.stats["applies"] += 1
                fn, args = e[2], e[3]
                elems = [q for q in pulls if any(sslflow.contains(a, q) for a in args)]
                if not elems:
                    rep.bad.append(("guarded", "%s: callback `%s` is applied to something that is not an element of the source" % (where, fn[1])))
                for q in elems:
                    if conds.get(("proj", q, 0)) is not True:
                        rep.bad.append(("guarded", "%s: callback `%s` is applied to the payload of a pull before / without knowing that the "
                                        "source delivered an element (it also runs on the end marker)" % (where, fn[1])))
                seg_applies[fn] = seg_applies.get(fn, 0) + 1
                if seg_applies[fn] > 1:
                    rep.bad.append(("apply-once", "%s: callback `%s` is applied %d times in one iteration / call" % (where, fn[1], seg_applies[fn])))
            elif k == "back":
                for q in pulls:
                    if conds.get(("proj", q, 0)) is False:
                        rep.bad.append(("after-end", "%s: the loop continues after source `%s` reported the end" % (where, q[2][1])))
                cur = [q for q in pulls if any(ev[0] in ("pull", "carried") and ev[1] == q[1] for ev in seg_events)]
                for q in cur:
                    if conds.get(("proj", q, 0)) is True:
                        el = ("proj", q, 1)
                        examined = any((ev[0] == "apply" and any(sslflow.contains(a, q) for a in ev[3])) or
                                       (ev[0] == "assume" and (sslflow.contains(ev[1], el) or (sslflow.contains(ev[1], q) and ev[1] != ("proj", q, 0))))
                                       for ev in seg_events)
                        if not examined:
                            rep.bad.append(("examined", "%s: an element of `%s` is dropped without being examined" % (where, q[2][1])))


def con_of(p, q):
    return p.conds.get(("proj", q, 0))


def path_pulls(p):
    return [("pull", e[1], e[2]) for e in p.events if e[0] == "pull"]


def last_segment_pull(p):
    """the element the last segment of the path is about: what it pulled, else what the previous iteration left it"""
    seg = sslflow.segments(p.events)[-1]
    ps = [("pull", e[1], e[2]) for e in seg if e[0] == "pull"]
    cs = [("pull", e[1], e[2]) for e in seg if e[0] == "carried"]
    for q in reversed(cs + ps):
        if con_of(p, q) is not None:
            return q            # the most recent element whose `con` has been tested
    return ps[-1] if ps else cs[-1] if cs else None


def segment_elements(p):
    seg = sslflow.segments(p.events)[-1]
    return [("pull", e[1], e[2]) for e in seg if e[0] in ("pull", "carried")]


def first_is(ret, truth):
    return ret[0] == "tuple" and len(ret[1]) == 2 and ret[1][0] == ("const", "true" if truth else "false", "true" if truth else "false")


def check_adaptor(kind, done, loopbacks, rep, where, hole_type=None):
    """wiring of map / filter / typefilter closures"""
    for p, ret in done:
        q = last_segment_pull(p)
        if q is None:
            rep.bad.append(("wiring", "%s: a call of the result returns without pulling the source" % where))
            continue
        con = con_of(p, q)
        el = ("proj", q, 1)
        if con is False:
            if not (ret == q or first_is(ret, False)):
                rep.bad.append(("wiring", "%s: after the end of the source the result is not an end marker (false, _)" % where))
            continue
        if con is None:
            rep.bad.append(("wiring", "%s: returns without testing whether the source delivered an element" % where))
            continue
        if kind == "map":
            ok = first_is(ret, True) and ret[1][1][0] == "apply" and ret[1][1][3] == (el,)
            if not ok:
                rep.bad.append(("wiring", "%s: map must return (true, f(element)) for a delivered element" % where))
        else:
            if not (ret == q or (first_is(ret, True) and ret[1][1] == el)):
                rep.bad.append(("wiring", "%s: filter must return the delivered element itself" % where))
            tests = _tests_on(p, q, kind, hole_type)
            if not tests or not all(v is True for v in tests):
                rep.bad.append(("wiring", "%s: an element is returned although its test %s" % (where, "did not hold" if tests else "was not made")))
    for p in loopbacks:
        q = last_segment_pull(p)
        if q is None or kind == "map":
            continue
        if con_of(p, q) is True:
            tests = _tests_on(p, q, kind, hole_type)
            if not tests or not all(v is False for v in tests):
                rep.bad.append(("wiring", "%s: an element is skipped although its test %s" % (where, "held" if tests else "was not made")))


def _tests_on(p, q, kind, hole_type):
    el = ("proj", q, 1)
    out = []
    for t, v in p.conds.items():
        if kind == "filter" and t[0] == "apply" and t[3] == (el,):
            out.append(v)
        if kind == "typefilter" and t[0] == "typetest" and t[1] == el and (hole_type is None or t[2] == hole_type):
            out.append(v)
    return out


def check_decider(op, done, loopbacks, rep, where):
    dec, res_dec, res_end = DECIDERS[op]
    name = "$&&" if op == "All" else "$||"
    for p, ret in done:
        q = last_segment_pull(p)
        if q is None:
            rep.bad.append(("wiring", "%s: %s returns without pulling" % (where, name)))
            continue
        con = con_of(p, q)
        val = p.conds.get(("proj", q, 1))
        want = None
        if con is False:
            want = res_end
        elif con is True and val is dec:
            want = res_dec
        if want is None:
            rep.bad.append(("wiring", "%s: %s returns on an element that does not decide the result" % (where, name)))
        elif ret != ("const", "true" if want else "false", "true" if want else "false"):
            rep.bad.append(("wiring", "%s: %s must yield %s %s" % (where, name, str(want).lower(),
                                                                     "for the empty / exhausted sequence" if con is False else "at the first deciding element")))
    for p in loopbacks:
        for q in segment_elements(p):
            if con_of(p, q) is True and p.conds.get(("proj", q, 1)) is dec:
                rep.bad.append(("wiring", "%s: %s keeps pulling after the deciding element (must stop at the first %s)" % (where, name, str(dec).lower())))


def const_value(t):
    """python value of a constant term (int / float / string), 'allones' for !0"""
    if t[0] == "const":
        if t[1] == "int":
            s = t[2].replace("_", "")
            return int(s, 0) if s[:2] in ("0x", "0b", "0o") else int(s)
        if t[1] == "float":
            return float(t[2].replace("_", ""))
        if t[1] == "string":
            return t[2][1:-1]
    if t[0] == "not" and t[1][0] == "const" and t[1][1] == "int" and const_value(t[1]) == 0:
        return "allones"
    if t[0] == "neg":
        v = const_value(t[1])
        return -v if isinstance(v, (int, float)) else None
    return None


def check_fold(op, fn, flow, done, rep, where):
    comb, idents = FOLDS[op]
    src = [n for n, ty in fn["params"] if is_source_type(ty)]
    if len(src) != 1:
        rep.bad.append(("shape", "%s: expected one iterator parameter" % where))
        return
    et = element_type(dict(fn["params"])[src[0]])
    if et not in idents:
        rep.bad.append(("wiring", "%s: no documented fold of %s over elements of type %s" % (where, op, et)))
        return
    for p, ret in done:
        ext = [e for e in p.events if e[0] == "ext" and e[2] == ("op", "reduce")]
        if len(ext) != 1 or ret != ("ext", ext[0][1]) or any(e[0] in ("pull", "apply") for e in p.events):
            rep.bad.append(("shape", "%s: expected `return <iterator> $<identity> <combiner>` (other shapes are not decided)" % where))
            continue
        it, init, f = ext[0][3]
        if it != ("param", src[0]):
            rep.bad.append(("wiring", "%s: folds something else than its iterator parameter" % where))
        if const_value(init) != idents[et] or (init[0] == "const" and init[1] != et and not (et == "int" and init[1] == "int")):
            rep.bad.append(("wiring", "%s: the fold starts from %s, the documented value for the empty sequence is %s" % (where, sslflow_show(init), idents[et])))
        if f[0] != "closure" or f not in flow.closures:
            rep.bad.append(("shape", "%s: combiner is not a function literal" % where))
            continue
        node, env = flow.closures[f]
        if len(node["params"]) != 2:
            rep.bad.append(("wiring", "%s: combiner must take (accumulator, element)" % where))
            continue
        f2 = sslflow.Flow()
        d2, l2 = f2.function(node, env)
        acc, cur = node["params"][0][0], node["params"][1][0]
        for _, r2 in d2:
            if r2 != ("bin", comb, ("param", acc), ("param", cur)):
                rep.bad.append(("wiring", "%s: combiner must return `%s %s %s` (accumulator on the left, in source order)" % (where, acc, comb, cur)))


def sslflow_show(t):
    if t[0] == "const":
        return t[2]
    if t[0] == "not":
        return "!" + sslflow_show(t[1])
    return str(t)


def check_enumerate(fn, flow, done_outer, rep, where):
    """`a~`: cursor cell advanced exactly once per delivered element, first index 0, step 1, bound tested before indexing"""
    arr = [n for n, ty in fn["params"] if ty.replace(" ", "").startswith("[")]
    if len(arr) != 1:
        rep.bad.append(("shape", "%s: expected one array parameter" % where))
        return
    arr = ("param", arr[0])
    for p, ret in done_outer:
        inits = {e[1]: e[3] for e in p.events if e[0] == "write" and e[2] == "init"}
        if ret[0] != "closure" or ret not in flow.closures:
            rep.bad.append(("shape", "%s: must return the iterator function" % where))
            continue
        lens = {("ext", e[1]) for e in p.events if e[0] == "ext" and e[3] == (arr,)}
        node, env = flow.closures[ret]
        f2 = sslflow.Flow()
        f2.ids = flow.ids
        d2, l2 = f2.function(node, env)
        if l2:
            rep.bad.append(("shape", "%s: loop inside the enumeration step (not decided)" % where))
        for q, r2 in d2:
            writes = [e for e in q.events if e[0] == "write" and e[2] != "init"]
            lens2 = lens | {("ext", e[1]) for e in q.events if e[0] == "ext" and e[3] == (arr,)}
            unit = all(e[2] == "assign_add" and const_value(e[3]) == 1 for e in writes)

            def affine(t):
                """(cell, k): the cursor's value at the start of this call plus k (every update is += 1)"""
                if t[0] == "deref" and t[1][0] == "cell":
                    return (t[1], t[2]) if unit else None
                if t[0] == "bin" and t[1] in ("add", "subtract"):
                    a, c = affine(t[2]), const_value(t[3])
                    if a and isinstance(c, int):
                        return (a[0], a[1] + (c if t[1] == "add" else -c))
                    if t[1] == "add":
                        a, c = affine(t[3]), const_value(t[2])
                        if a and isinstance(c, int):
                            return (a[0], a[1] + c)
                return None

            def bound_tests(want):
                """affine values X for which the path knows (X < len) == want"""
                out = []
                for t, v in q.conds.items():
                    if t[0] != "bin":
                        continue
                    if t[1] == "lower" and t[3] in lens2 and v is want:
                        out.append(affine(t[2]))
                    elif t[1] == "greater" and t[2] in lens2 and v is want:
                        out.append(affine(t[3]))
                    elif t[1] == "greater_equal" and t[3] in lens2 and v is (not want):
                        out.append(affine(t[2]))
                    elif t[1] == "lower_equal" and t[2] in lens2 and v is (not want):
                        out.append(affine(t[3]))
                return [x for x in out if x]
            if first_is(r2, True):
                el = r2[1][1]
                idx = affine(el[3]) if (el[0] == "bin" and el[1] == "at" and el[2] == arr) else None
                if idx is None:
                    rep.bad.append(("wiring", "%s: a delivered element must be array[cursor], the cursor advancing by 1" % where))
                    continue
                cell, k = idx
                ws = [e for e in writes if e[1] == cell]
                if len(ws) != 1:
                    rep.bad.append(("wiring", "%s: the cursor must advance exactly once per delivered element (found %d update(s))" % (where, len(ws))))
                    continue
                init = const_value(inits.get(cell, ("unk",)))
                first_index = None if not isinstance(init, int) else init + k
                if first_index != 0:
                    rep.bad.append(("wiring", "%s: the first delivered element is array[%s], not array[0]" % (where, first_index)))
                if not any(c == cell and kk >= k for c, kk in bound_tests(True)):
                    rep.bad.append(("wiring", "%s: array[cursor] is delivered without the test cursor < len(array) on that cursor value" % where))
            elif not first_is(r2, False):
                rep.bad.append(("wiring", "%s: the enumeration step must return (true, element) or (false, _)" % where))
            elif not bound_tests(False):
                # the end marker must not be produced while elements remain: it needs the failed bound test
                rep.bad.append(("wiring", "%s: the end marker is returned without the failed test cursor < len(array)" % where))


# ---------------------------------------------------------------- the rule over embedded fragments
def analyse_fragment(sn, kind, builder):
    """returns FnReport for one fragment"""
    rep = FnReport()
    where = sn["static"] or sn["body"]
    ast = builder.program(sn["tree"])
    fns = [x for x in ast if x["k"] == "function"]
    if len(ast) != 1 or len(fns) != 1:
        rep.bad.append(("shape", "%s: the fragment is not a single function literal" % where))
        return rep
    fn = fns[0]
    flow = sslflow.Flow()
    done, lbs = flow.function(fn, {})
    returns_closure = bool(done) and all(r[0] == "closure" for _, r in done)
    check_paths(done, lbs, rep, where)
    if returns_closure:
        # lazy: nothing is pulled or applied before the result is called
        for p, _ in done:
            if any(e[0] in ("pull", "apply") for e in p.events):
                rep.bad.append(("lazy", "%s: pulls its source / applies its callback while the iterator is being built, before the result "
                                "is pulled" % where))
        inner = {}
        for p, r in done:
            inner[r] = flow.closures[r]
        for key, (node, env) in inner.items():
            f2 = sslflow.Flow()
            f2.ids = flow.ids
            d2, l2 = f2.function(node, env)
            check_paths(d2, l2, rep, where + " (result)")
            if kind in ("map", "filter"):
                check_adaptor(kind, d2, l2, rep, where + " (result)")
    if kind == "typefilter":
        check_adaptor("typefilter", done, lbs, rep, where, snippets.HOLE if sn["holes"] else None)
    elif kind in ("map", "filter") and not returns_closure:
        rep.bad.append(("lazy", "%s: must return a function (the adapted iterator) without consuming its source" % where))
    elif kind in DECIDERS:
        check_decider(kind, done, lbs, rep, where)
    elif kind in FOLDS:
        check_fold(kind, fn, flow, done, rep, where)
    elif kind == "Iter":
        check_enumerate(fn, flow, done, rep, where)
    return rep


KIND_OF_OP = {"Map": "map", "Filter": "filter", "All": "All", "Any": "Any", "BitAnd": "BitAnd", "BitOr": "BitOr", "Sum": "Sum",
              "Product": "Product", "Iter": "Iter"}


def run_src(ctx):
    res = RuleResult("R-ITERSRC", "iterator operators written in SimpleSL (embedded fragments): pull-once, no pull after the end, callbacks "
                                  "only on delivered elements and once, no element dropped unexamined, adaptors lazy, results wired as documented")
    lib = ctx.facts.lib
    try:
        sn = snippets.load(ctx)
        builder = sslast.Builder(tablesrc.pratt_levels(ctx.facts.parser))
    except Exception as e:      # fail closed
        res.broken.append("embedded fragments cannot be read: %s" % e)
        return res
    statics = [s["static"] for s in sn if s["static"]]
    ops = operator_of_statics(lib, statics)
    seen_kinds = set()
    n = 0
    for s in sn:
        where = s["static"] or s["body"]
        key = "itersrc:%s" % where
        if s["text"] is None:
            res.broken.append("Code::parse in %s: the program text is not a literal or format template the analysis can read" % s["body"])
            continue
        if "tree" not in s:
            # a fragment that does not parse makes the operator panic at first use; C03 / R-PANIC own that
            res.bad(key, "embedded fragment of %s does not parse: %s" % (where, s.get("error", "")[:200]), "%s:%s" % (s["file"], s["line"]))
            continue
        if s["static"]:
            op = ops.get(s["static"])
            kind = KIND_OF_OP.get(op)
            if kind is None:
                if any(is_source_type(ty) for ty in _param_types(s, builder)):
                    res.broken.append("%s takes an iterator but the operator that runs it cannot be recovered from the dispatch code" % where)
                continue
        else:
            kind = "typefilter" if s["holes"] else None
            if kind is None:
                continue
        n += 1
        seen_kinds.add(kind)
        try:
            rep = analyse_fragment(s, kind, builder)
        except (sslast.AstError, sslflow.FlowError) as e:
            res.broken.append("%s: fragment uses a construct the path analysis does not model (%s)" % (where, e))
            continue
        if rep.bad:
            seen = set()
            for clause, msg in rep.bad:
                if (clause, msg) in seen:
                    continue
                seen.add((clause, msg))
                res.bad("%s|%s" % (key, clause), msg, "%s:%s" % (s["file"], s["line"]))
        else:
            res.ok(key, "%s:%s" % (s["file"], s["line"]), "%s: %d paths, %d iteration segments, %d pulls, %d applications examined"
                   % (kind, rep.stats["paths"], rep.stats["segments"], rep.stats["pulls"], rep.stats["applies"]))
    res.stats["fragments"] = n
    res.stats["kinds"] = ",".join(sorted(seen_kinds))
    res.floor(n, 13, "embedded_iterator_fragments")
    for k in ("map", "filter", "typefilter", "Iter", "All", "Any", "BitAnd", "BitOr", "Sum", "Product"):
        res.anchor(k in seen_kinds, "fragment implementing %s" % k)
    _controls(res, builder)
    return res


def _param_types(s, builder):
    try:
        ast = builder.program(s["tree"])
        return [ty for x in ast if x["k"] == "function" for _, ty in x["params"]]
    except Exception:
        return []


# positive controls: broken variants of the fragments must be reported (parsed with the same grammar, same analysis)
CONTROLS = [
    ("map", "guarded", "(func: () -> (bool, int), mapper: (int) -> int) -> () -> (bool, int) { return () -> (bool, int) { (con, value) := func(); return (con, mapper(value)); } }"),
    ("map", "pull-once", "(func: () -> (bool, int), mapper: (int) -> int, d: int) -> () -> (bool, int) { return () -> (bool, int) { func(); (con, value) := func(); if !con return (false, d); return (true, mapper(value)); } }"),
    ("map", "lazy", "(func: () -> (bool, int), mapper: (int) -> int, d: int) -> () -> (bool, int) { first := func(); return () -> (bool, int) { (con, value) := func(); if !con return (false, d); return (true, mapper(value)); } }"),
    ("filter", "guarded", "(func: () -> (bool, int), predicate: (int) -> bool) -> () -> (bool, int) { return () -> (bool, int) { loop { res := func(); (con, value) := res; if predicate(value) || !con return res; } } }"),
    ("filter", "wiring", "(func: () -> (bool, int), predicate: (int) -> bool) -> () -> (bool, int) { return () -> (bool, int) { loop { res := func(); (con, value) := res; if !con || !predicate(value) return res; } } }"),
    ("All", "wiring", "(iter: () -> (bool, bool)) -> bool { res := mut true; loop { (con, value) := iter(); if !con { break; } if !value { res = false; } } return *res; }"),
    ("Sum", "wiring", "(iter: () -> (bool, string)) -> string { return iter $\"\" (acc: string, curr: string) -> string { return curr + acc; } }"),
    ("BitAnd", "wiring", "(iter: () -> (bool, int)) -> int { return iter $0 (acc: int, curr: int) -> int { return acc & curr; } }"),
    ("Iter", "wiring", "(array: [int], default: int) -> () -> (bool, int) { i := mut 0; len := std.len(array) return () -> (bool, int) { i+=1; if *i < len { return (true, array[*i]) } return (false, default) } }"),
]


def _controls(res, builder):
    import os
    from .. import extract
    sn = [{"static": "control-%d" % i, "body": "control", "text": t, "holes": 0, "line": 0, "file": "control"} for i, (_, _, t) in enumerate(CONTROLS)]
    try:
        snippets.parse_all(sn, os.path.join(extract.REPO, "parser/src/simplesl.pest"))
    except Exception as e:
        res.broken.append("controls cannot be parsed: %s" % e)
        return
    for (kind, clause, _), s in zip(CONTROLS, sn):
        ok = False
        if "tree" in s:
            try:
                rep = analyse_fragment(s, kind, builder)
                ok = any(c == clause for c, _ in rep.bad)
            except Exception:
                ok = False
        res.control(ok, "broken %s fragment reported under clause %s" % (kind, clause))


# ================================================================ R-ITERLOOP: the operators driven by Rust loops
PULLFN = "function::Function::exec_with_args"
TRANSPARENT = {"deref", "clone", "branch", "from_ref", "as_ref", "borrow", "into", "from", "index", "as_slice", "to_owned", "unwrap", "expect"}
APPENDERS = {"std::vec::Vec::<T, A>::push", "std::collections::VecDeque::<T, A>::push_back"}


def _const_usize(b):
    out = {}
    for l in range(len(b.locals)):
        d = single_def(b, l)
        if d and d[1] == "assign" and d[2]["rv"]["k"] == "use" and d[2]["rv"]["o"].get("k") == "const" and d[2]["rv"]["o"].get("ty") == "usize":
            try:
                out[l] = int(d[2]["rv"]["o"].get("bits", "x"), 16) if False else int(str(d[2]["rv"]["o"].get("val", "")).split("_")[0])
            except ValueError:
                pass
    return out


def _is_empty_slice(b, o, depth=0):
    l = op_local(o)
    if l is None or depth > 6:
        if isinstance(o, dict) and o.get("k") == "const":
            return "; 0]" in (o.get("ty") or "")
        return False
    d = single_def(b, l)
    if d is None or d[1] != "assign":
        return False
    rv = d[2]["rv"]
    if rv["k"] == "cast":
        return "; 0]" in (rv.get("src") or "") or _is_empty_slice(b, rv["o"], depth + 1)
    if rv["k"] == "use":
        return _is_empty_slice(b, rv["o"], depth + 1)
    if rv["k"] in ("ref", "copyderef"):
        return _is_empty_slice(b, {"k": "copy", "l": rv["place"]["l"], "p": []}, depth + 1)
    if rv["k"] == "agg" and rv.get("agg") == "array":
        return not rv["ops"]
    return False


def _promoted_bool(b, o, depth=0):
    """True / False when operand is (a reference to) the constant Variable::Bool(x)"""
    if not isinstance(o, dict) or depth > 6:
        return None
    if o.get("k") == "const":
        if "promoted" in o:
            try:
                pb = b.raw["promoted"][int(o["promoted"])]
            except (KeyError, IndexError, ValueError):
                return None
            for blk in pb["blocks"]:
                for st in blk["stmts"]:
                    if st["k"] == "assign" and st["rv"]["k"] == "agg" and st["rv"].get("adt") == "variable::Variable" and st["rv"].get("variant") == "Bool":
                        ops = st["rv"]["ops"]
                        if ops and ops[0].get("k") == "const":
                            return ops[0].get("val") == "true"
        return None
    l = op_local(o)
    d = single_def(b, l) if l is not None else None
    if d is None or d[1] != "assign":
        return None
    rv = d[2]["rv"]
    if rv["k"] == "use":
        return _promoted_bool(b, rv["o"], depth + 1)
    if rv["k"] in ("ref", "copyderef"):
        return _promoted_bool(b, {"k": "copy", "l": rv["place"]["l"], "p": []}, depth + 1)
    if rv["k"] == "agg" and rv.get("adt") == "variable::Variable" and rv.get("variant") == "Bool" and rv["ops"] and rv["ops"][0].get("k") == "const":
        return rv["ops"][0].get("val") == "true"
    return None


class LoopFacts:
    """flow-insensitive provenance labels of the locals of one function that pulls an iterator in a loop"""

    def __init__(self, b):
        self.b = b
        self.pulls = [c for c in b.calls if c.callee == PULLFN and len(c.args) == 2 and _is_empty_slice(b, c.args[1])]
        self.applies = [c for c in b.calls if c.callee == PULLFN and c not in self.pulls]
        self.labels = {}
        self.agg_ops = {}
        self.cu = _const_usize(b)
        for c in self.pulls:
            self.labels.setdefault(c.dest["l"], set()).add("res")
        for c in self.applies:
            self.labels.setdefault(c.dest["l"], set()).add("app")
        n = 0
        for c in b.calls:
            if c.callee.startswith("std::vec::Vec::<T>::new") or c.callee.endswith("Vec::<T>::with_capacity"):
                n += 1
                self.labels.setdefault(c.dest["l"], set()).add("vec%d" % n)
        self._fix()

    def of_place(self, l, proj):
        out = set()
        for lab in self.labels.get(l, ()):
            if lab == "res":
                idx = None
                for e in proj:
                    if e["k"] == "index" and e.get("l") in self.cu:
                        idx = self.cu[e["l"]]
                    elif e["k"] == "constindex":
                        idx = e.get("offset")
                if idx in (0, 1):
                    lab = "e%d" % idx
            out.add(lab)
        return out

    def of_op(self, o):
        if not isinstance(o, dict) or o.get("k") not in ("copy", "move"):
            return set()
        return self.of_place(o["l"], o.get("p", []))

    def _add(self, l, labs):
        cur = self.labels.setdefault(l, set())
        before = len(cur)
        cur |= labs
        return len(cur) != before

    def _fix(self):
        b = self.b
        changed = True
        rounds = 0
        while changed and rounds < 50:
            changed = False
            rounds += 1
            for blk in b.blocks:
                for s in blk["stmts"]:
                    if s["k"] != "assign":
                        continue
                    d = s["place"]["l"]
                    rv = s["rv"]
                    k = rv["k"]
                    if k in ("use", "cast"):
                        changed |= self._add(d, self.of_op(rv["o"]))
                    elif k in ("ref", "copyderef", "discr", "rawptr"):
                        changed |= self._add(d, self.of_place(rv["place"]["l"], rv["place"]["p"]))
                    elif k == "agg":
                        labs = [self.of_op(o) for o in rv["ops"]]
                        self.agg_ops[d] = labs
                        u = set()
                        for x in labs:
                            u |= x
                        changed |= self._add(d, u)
                t = blk["term"]
                if t["k"] != "call" or not t.get("args"):
                    continue
                fn = t["func"].get("fn", {})
                callee = fn.get("resolved") or fn.get("path", "")
                if callee == PULLFN:
                    continue
                last = callee.rsplit("::", 1)[-1]
                d = t["dest"]["l"]
                if callee.endswith("std::cmp::PartialEq>::eq"):
                    for i in (0, 1):
                        labs = self.of_op(t["args"][i])
                        cb = _promoted_bool(b, t["args"][1 - i])
                        if cb is not None:
                            for lab in labs & {"e0", "app"}:
                                changed |= self._add(d, {"eq:%s:%s" % (lab, cb)})
                elif last in TRANSPARENT:
                    labs = self.of_op(t["args"][0])
                    if last == "index" and len(t["args"]) > 1 and "res" in labs:
                        il = op_local(t["args"][1])
                        if il in self.cu and self.cu[il] in (0, 1):
                            labs = (labs - {"res"}) | {"e%d" % self.cu[il]}
                    changed |= self._add(d, labs)


def loop_paths(lf, pull, cap=20000):
    """acyclic paths from the pull back to itself ('iter') or to a return ('exit' / 'error'): list of (kind, events)"""
    b = lf.b
    out = []
    start = pull.term.get("target")
    if start is None:
        return out
    stack = [(start, frozenset([pull.bb]), (), {})]
    while stack:
        if len(out) > cap:
            raise sslflow.FlowError("too many paths through the loop of %s" % b.id)
        bb, seen, ev, env = stack.pop()
        if bb == pull.bb:
            out.append(("iter", ev))
            continue
        if bb in seen:
            continue            # an inner cycle: not a new iteration of this pull
        seen = seen | {bb}
        blk = b.blocks[bb]
        # boolean temporaries (`matches!` results, drop flags) assigned a constant on this path
        for st in blk["stmts"]:
            if st["k"] == "assign" and not st["place"]["p"]:
                rv = st["rv"]
                if rv["k"] == "use" and rv["o"].get("k") == "const" and rv["o"].get("ty") == "bool":
                    env = dict(env)
                    env[st["place"]["l"]] = rv["o"].get("val") == "true"
                elif st["place"]["l"] in env:
                    env = dict(env)
                    del env[st["place"]["l"]]
        t = blk["term"]
        k = t["k"]
        if k == "return":
            out.append(("error" if any(e[0] == "error" for e in ev) else "exit", ev))
            continue
        if k in ("resume", "unreachable", "abort"):
            continue
        if k == "call":
            fn = t["func"].get("fn", {})
            callee = fn.get("resolved") or fn.get("path", "")
            if callee == PULLFN:
                c = next(c for c in lf.pulls + lf.applies if c.bb == bb)
                if c in lf.pulls:
                    ev = ev + (("pull", bb),)
                else:
                    arg = lf.of_op(t["args"][1]) if len(t["args"]) > 1 else set()
                    ev = ev + (("apply", bb, "e1" in arg),)
            elif callee in APPENDERS:
                arg = lf.of_op(t["args"][1]) if len(t["args"]) > 1 else set()
                vec = sorted(x for x in lf.of_op(t["args"][0]) if x.startswith("vec"))
                ev = ev + (("push", bb, "e1" in arg, tuple(vec)),)
            elif "FromResidual" in callee and callee.endswith("from_residual"):
                ev = ev + (("error", bb),)
            elif callee.startswith(("core::panicking::", "std::rt::begin_panic")):
                continue
            if "target" in t:
                if t.get("dest") and t["dest"]["l"] in env:
                    env = dict(env)
                    del env[t["dest"]["l"]]
                stack.append((t["target"], seen, ev, env))
            continue
        if k == "switch":
            dl = t["discr"]
            labs = set()
            field_bool = False
            if isinstance(dl, dict) and dl.get("k") in ("copy", "move"):
                labs = lf.of_place(dl["l"], dl.get("p", []))
                field_bool = any(e["k"] == "field" and e.get("ty") == "bool" for e in dl.get("p", []))
            succs = [(val, tg) for val, tg in t["targets"]] + [("otherwise", t["otherwise"])]
            if isinstance(dl, dict) and dl.get("k") in ("copy", "move") and not dl.get("p") and dl["l"] in env and t.get("ty") == "bool":
                want = "1" if env[dl["l"]] else "0"
                exact = [(v, tg) for v, tg in t["targets"] if v == want]
                succs = exact if exact else [("otherwise", t["otherwise"])]
            # `if let Variable::Bool(true) = <callback result>`: every other variant is "not true"
            variants = None
            what = None
            if isinstance(dl, dict) and not dl.get("p"):
                for st in blk["stmts"]:
                    if st["k"] == "assign" and st["place"]["l"] == dl["l"] and st["rv"]["k"] == "discr" and st["rv"].get("enum") == "variable::Variable":
                        src = lf.of_place(st["rv"]["place"]["l"], st["rv"]["place"]["p"])
                        if "app" in src or "e0" in src:
                            variants = st["rv"].get("variants") or {}
                            what = "app" if "app" in src else "e0"
            for val, tg in succs:
                e2 = ev
                if variants is not None and variants.get(val) != "Bool" and (val != "otherwise" or any(variants.get(v) == "Bool" for v, _ in t["targets"])):
                    # not a Bool at all: the callback result is "not true"; the `con` component is "not false"
                    e2 = e2 + ((("pred", False) if what == "app" else ("con", True)),)
                for lab in labs:
                    if lab.startswith("eq:"):
                        _, what, cb = lab.split(":")
                        equal = (val != "0")
                        truth = (cb == "True") if equal else (cb != "True")
                        e2 = e2 + ((("con" if what == "e0" else "pred"), truth),)
                    elif field_bool and lab in ("e0", "app") and t.get("ty") == "bool":
                        e2 = e2 + ((("con" if lab == "e0" else "pred"), val != "0"),)
                stack.append((tg, seen, e2, env))
            continue
        for s in b.succ[bb]:
            stack.append((s, seen, ev, env))
    return out


def judge_body(b):
    """[(pull call, kind, [(clause, msg)], n_iter_paths, n_exits)] for every pull loop of body b; raises FlowError"""
    out = []
    lf = LoopFacts(b)
    for pull in lf.pulls:
        if pull.term.get("target") is None or pull.bb not in b.reachable_after(pull.bb):
            continue        # a single pull outside a loop (not an operator implementation)
        paths = loop_paths(lf, pull)
        bad = []
        iters = [ev for k, ev in paths if k == "iter"]
        exits = [ev for k, ev in paths if k == "exit"]
        if not iters:
            raise sslflow.FlowError("%s: no path returns to the pull" % b.id)
        prof = set()
        for ev in iters:
            cons = [e for e in ev if e[0] == "con"]
            if any(e[0] == "pull" for e in ev):
                bad.append(("pull-once", "pulls the iterator twice in one iteration (an element is skipped)"))
            if not cons:
                bad.append(("guarded", "an iteration does not test the `con` component of what it pulled"))
            elif any(e[1] is False for e in cons):
                bad.append(("after-end", "the loop continues after the iterator reported the end"))
            seen_con = False
            for e in ev:
                if e[0] == "con" and e[1] is True:
                    seen_con = True
                if e[0] in ("apply", "push") and e[2] and not seen_con:
                    bad.append(("guarded", "the payload of a pull is used before `con` is known to be true (the end marker's payload is consumed as an element)"))
            prof.add((sum(1 for e in ev if e[0] == "apply" and e[2]), sum(1 for e in ev if e[0] == "push" and e[2])))
        for ev in exits:
            cons = [e for e in ev if e[0] == "con"]
            if cons and all(e[1] is True for e in cons):
                bad.append(("early-exit", "the loop is left although the iterator delivered an element"))
            if any(e[0] in ("apply", "push") and e[2] for e in ev) and any(e[1] is False for e in cons):
                bad.append(("guarded", "the payload of the end marker is consumed as an element"))
        if len(prof) != 1:
            bad.append(("consume-once", "iterations differ in how often they consume the element %s: an element is dropped or used twice on some path" % sorted(prof)))
        na, npush = max(prof)
        if na > 1 or npush > 1:
            bad.append(("consume-once", "an element is passed to the callback / appended more than once per iteration"))
        if na == 0 and npush == 0:
            bad.append(("consume-once", "the delivered element is never consumed"))
        kind = "partition" if na and npush else "reduce" if na else "collect"
        if kind == "reduce":
            for c in lf.applies:
                al = op_local(c.args[1])
                # the argument slice: [accumulator, element]
                ops = None
                cur = al
                for _ in range(6):
                    if cur in lf.agg_ops and len(lf.agg_ops[cur]) >= 2:
                        ops = lf.agg_ops[cur]
                        break
                    d = single_def(b, cur) if cur is not None else None
                    if d is None or d[1] != "assign":
                        break
                    rv = d[2]["rv"]
                    cur = op_local(rv["o"]) if rv["k"] in ("use", "cast") else rv["place"]["l"] if rv["k"] in ("ref", "copyderef") else None
                if ops is None or len(ops) != 2:
                    bad.append(("threading", "the callback must be called with exactly (accumulator, element)"))
                elif "e1" in ops[0] or "e1" not in ops[1]:
                    bad.append(("threading", "the callback must receive (accumulator, element) in this order"))
                elif "app" not in ops[0]:
                    bad.append(("threading", "the accumulator passed to the callback is not the previous result of the callback (not a left fold)"))
            rets = set()
            for blk in b.blocks:
                for s in blk["stmts"]:
                    if s["k"] == "assign" and s["place"]["l"] == 0 and s["rv"]["k"] == "agg" and s["rv"].get("variant") == "Ok":
                        rets |= lf.of_op(s["rv"]["ops"][0])
            if "app" not in rets:
                bad.append(("threading", "the result of the fold is not the last accumulator"))
        if kind == "partition":
            by = {}
            for ev in iters:
                pr = [e[1] for e in ev if e[0] == "pred"]
                for e in ev:
                    if e[0] == "push" and e[2]:
                        by.setdefault(pr[-1] if pr else None, set()).add(e[3])
            t_v, f_v = by.get(True, set()), by.get(False, set())
            if None in by or len(t_v) != 1 or len(f_v) != 1 or t_v == f_v:
                bad.append(("halves", "an element must go to one vector when the predicate yields true and to another one otherwise"))
            else:
                tv, fv = next(iter(t_v)), next(iter(f_v))
                order = None
                for d, labs in lf.agg_ops.items():
                    if len(labs) == 2 and set(tv) & labs[0] and set(fv) & labs[1] and not (set(tv) & labs[1]) and not (set(fv) & labs[0]):
                        order = "ok"
                    elif len(labs) == 2 and set(fv) & labs[0] and set(tv) & labs[1] and not (set(fv) & labs[1]) and not (set(tv) & labs[0]):
                        order = order or "swapped"
                if order != "ok":
                    bad.append(("halves", "the result must be (elements with p, elements without p) in this order"))
        out.append((pull, kind, sorted(set(bad)), len(iters), len(exits)))
    return out


def run_loop(ctx):
    res = RuleResult("R-ITERLOOP", "iterator operators driven by Rust loops ($ init f, $], \\): one pull per iteration, nothing after the end "
                                   "marker, each delivered element consumed exactly once (pushed / passed to the callback), the accumulator "
                                   "threaded left to right, partition halves in (true, false) order")
    lib = ctx.facts.lib
    n = 0
    kinds = set()
    for b in sorted(lib.bodies.values(), key=lambda x: x.id):
        if not any(c.callee == PULLFN for c in b.calls):
            continue
        key = "iterloop:%s" % b.id
        try:
            judged = judge_body(b)
        except sslflow.FlowError as e:
            res.broken.append(str(e))
            continue
        for pull, kind, bad, ni, ne in judged:
            n += 1
            kinds.add(kind)
            if bad:
                for clause, msg in bad:
                    res.bad("%s|%s" % (key, clause), "%s: %s" % (b.id, msg), b.where(pull.line))
            else:
                res.ok(key, b.where(pull.line), "%s loop: %d iteration paths, %d exits examined" % (kind, ni, ne))
    res.stats["pull_loops"] = n
    res.floor(n, 3, "rust_pull_loops")
    for k in ("reduce", "collect", "partition"):
        res.anchor(k in kinds, "Rust loop of kind %s" % k)
    # positive controls in the fixture crate
    fx = ctx.fixtures
    want = {"iterloop::collect_ok": None, "iterloop::collect_matches_ok": None, "iterloop::collect_inverted": "after-end",
            "iterloop::collect_pull_twice": "pull-once", "iterloop::collect_unguarded": "guarded",
            "iterloop::reduce_swapped": "threading", "iterloop::collect_drops": "consume-once", "iterloop::partition_swapped": "halves"}
    for fid, clause in want.items():
        fb = fx.body(fid)
        got = None
        if fb is not None:
            try:
                got = [c for _, _, bad, _, _ in judge_body(fb) for c, _ in bad]
            except sslflow.FlowError:
                got = None
        if clause is None:
            res.control(got == [], "%s (correct loop is silent)" % fid)
        else:
            res.control(got is not None and clause in got, "%s (reported under %s)" % (fid, clause))
    return res


# ================================================================ R-ITERPICK: which fragment a type-guarded dispatcher picks
UNIT_TYPES = {"Bool": "bool", "Int": "int", "Float": "float", "String": "string", "Void": "()", "Any": "any", "Never": "!"}


def type_term(b, o, depth=0):
    """text (no spaces) of the Type literal an operand denotes when it is built inline by var_type!, else None"""
    if depth > 12 or not isinstance(o, dict):
        return None
    l = op_local(o)
    if l is None:
        return None
    d = single_def(b, l)
    if d is None:
        return None
    if d[1] == "call":
        last = (d[2]["func"].get("fn", {}).get("path", "")).rsplit("::", 1)[-1]
        if last in ("into", "from", "clone", "new") and d[2]["args"]:
            return type_term(b, d[2]["args"][0], depth + 1)
        return None
    rv = d[2]["rv"]
    if rv["k"] in ("use", "cast"):
        return type_term(b, rv["o"], depth + 1)
    if rv["k"] in ("ref", "copyderef"):
        return type_term(b, {"k": "copy", "l": rv["place"]["l"], "p": []}, depth + 1)
    if rv["k"] != "agg":
        return None
    if rv.get("agg") == "array":
        parts = [type_term(b, x, depth + 1) for x in rv["ops"]]
        return None if any(p is None for p in parts) else "\x00".join(parts)      # element list, joined by the caller
    adt = rv.get("adt", "")
    if adt == "variable::r#type::Type":
        v = rv["variant"]
        if v in UNIT_TYPES and not rv["ops"]:
            return UNIT_TYPES[v]
        inner = type_term(b, rv["ops"][0], depth + 1) if rv["ops"] else None
        if inner is None:
            return None
        if v == "Tuple":
            return "(%s)" % ",".join(inner.split("\x00"))
        if v == "Array":
            return "[%s]" % inner
        if v == "Function":
            return inner
        if v == "Mut":
            return "mut" + inner
        return None
    if adt == "variable::function_type::FunctionType":
        f = dict(zip(rv["fields"], rv["ops"]))
        ps = type_term(b, f.get("params"), depth + 1)
        rt = type_term(b, f.get("return_type"), depth + 1)
        if ps is None or rt is None:
            return None
        return "(%s)->%s" % (",".join(x for x in ps.split("\x00") if x), rt)
    return None


def run_pick(ctx):
    res = RuleResult("R-ITERPICK", "a dispatcher that picks an embedded fragment by a type test picks the fragment declared for that type")
    lib = ctx.facts.lib
    try:
        sn = [s for s in snippets.load(ctx) if s["static"] and "tree" in s]
        builder = sslast.Builder(tablesrc.pratt_levels(ctx.facts.parser))
    except Exception as e:
        res.broken.append("embedded fragments cannot be read: %s" % e)
        return res
    declared = {}
    for s in sn:
        tys = [ty for ty in _param_types(s, builder) if is_source_type(ty)]
        if len(tys) == 1:
            declared[s["static"]] = tys[0].replace(" ", "")
    by_user = {}
    for st in declared:
        for u, c in wrapper_users(lib, st):
            by_user.setdefault(u.id, []).append((st, c))
    n = 0
    for uid, sites in sorted(by_user.items()):
        if len({s for s, _ in sites}) < 2:
            continue
        b = lib.body(uid)
        guards = []         # (true-region blocks, type text, line)
        for c in b.calls:
            if c.callee != "variable::r#type::Type::matches" or c.term.get("target") is None:
                continue
            sw = b.blocks[c.term["target"]]["term"]
            if sw["k"] != "switch" or op_local(sw["discr"]) != c.dest["l"]:
                continue
            lit = type_term(b, c.args[1]) if len(c.args) > 1 else None
            if lit is None:
                continue
            guards.append((set(arm_region(b, sw["otherwise"])), lit, c.line))
        if not guards:
            continue            # selected some other way (by operator: R-ITERSRC reads that)
        for st, c in sites:
            n += 1
            key = "iterpick:%s|%s" % (uid, st)
            mine = [(lit, line) for region, lit, line in guards if c.bb in region]
            if mine:
                lit = mine[-1][0]
                if lit == declared[st]:
                    res.ok(key, b.where(c.line), "picked under the test `matches %s`, declared for %s" % (lit, declared[st]))
                else:
                    res.bad(key, "%s runs %s (declared for iterators of type %s) on operands that passed the test `matches %s`"
                            % (uid, st, declared[st], lit), b.where(c.line))
            else:
                others = {lit for _, lit, _ in guards}
                if declared[st] in others:
                    res.bad(key, "%s runs %s (declared for %s) exactly when the test for that type failed" % (uid, st, declared[st]), b.where(c.line))
                else:
                    res.ok(key, b.where(c.line), "fallback after the tests for %s; declared for %s" % (sorted(others), declared[st]))
    res.stats["type_guarded_picks"] = n
    res.floor(n, 5, "type_guarded_picks")
    return res
