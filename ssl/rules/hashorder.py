"""R-HASH / R-HASHORDER / R-NONDET: nothing semantic depends on the iteration order of a hash container,
and no other source of nondeterminism is called."""
import os
import re

from ..engine import RuleResult, VERIF

HASHY = ("std::collections::HashMap<", "std::collections::HashSet<", "variable::multi_type::MultiType",
         "std::collections::hash_map::", "std::collections::hash_set::")
START_METHODS = {"iter", "keys", "values", "into_iter", "iter_mut", "drain", "into_keys", "into_values", "values_mut"}
# adapters: result is again an iterator over the same sequence (order preserved)
ADAPTERS = {"map", "cloned", "copied", "filter", "filter_map", "flat_map", "flatten", "inspect", "map_while", "take_while",
            "skip_while", "peekable", "by_ref", "into_iter", "fuse", "chain", "rev", "skip", "take", "step_by", "tuples"}
POSITIONAL = {"enumerate", "zip"}          # expose the position: order-sensitive by construction
INSENSITIVE = {"all", "any", "count", "len", "size_hint", "is_empty"}
FOLDS = {"try_fold", "fold", "reduce", "try_for_each", "for_each"}
SENSITIVE = {"collect", "unzip", "find", "find_map", "position", "last", "nth", "min_by", "max_by", "min_by_key", "max_by_key",
             "join", "partition", "eq", "cmp", "partial_cmp", "lt", "le", "gt", "ge", "ne"}
# combiner callees known to be commutative + associative (+ idempotent where the seed may repeat): reviewed
COMMUTATIVE = {
    "<variable::r#type::Type as std::ops::BitOr<T>>::bitor": "join of the subtype lattice (Type::concat)",
    "variable::r#type::Type::concat": "union: set insertion / lattice join",
    "variable::r#type::Type::conjoin": "meet: componentwise, symmetric arms (reviewed)",
}
DISPLAY_TRAITS = {"std::fmt::Display", "std::fmt::Debug"}
DISPLAY_FNS = {"variable::Variable::string": "rendering only; the property allows print order to vary",
               "variable::Variable::debug": "rendering only"}
NONDET_PREFIXES = ("std::time::", "std::env::", "std::process::id", "std::thread::current", "std::thread::spawn",
                   "std::hash::RandomState::new", "std::collections::hash_map::RandomState::new", "rand::",
                   "std::hash::BuildHasher::hash_one")
NONDET_OK_MODULES = ("stdlib::fs", "stdlib::io")


def is_hashy(t):
    t = t.lstrip("&").replace("mut ", "", 1) if t.startswith("&") else t
    while t.startswith("&"):
        t = t[1:].lstrip()
        if t.startswith("mut "):
            t = t[4:]
        if t.startswith("'"):
            t = t.split(" ", 1)[1] if " " in t else t
    return t.startswith(HASHY[:3]) or t.startswith("std::sync::Arc<std::collections::Hash")


def is_start(c):
    n = c.callee
    m = n.rsplit("::", 1)[-1]
    if (n.startswith("std::collections::HashMap::<") or n.startswith("std::collections::HashSet::<")) and m in START_METHODS:
        return True
    if n == "variable::multi_type::MultiType::iter":
        return True
    if m == "into_iter" and any(h in c.self_ty for h in ("HashMap<", "HashSet<", "MultiType")):
        return True
    return False


def load_table(name):
    rows = {}
    p = os.path.join(VERIF, "tables", name)
    if os.path.exists(p):
        for ln in open(p):
            if ln.startswith("#") or not ln.strip():
                continue
            f = ln.rstrip("\n").split("\t")
            rows[f[0]] = f[1:] if len(f) > 1 else [""]
    return rows


class Trace:
    def __init__(self, body):
        self.b = body
        self.terminals = []   # (method, call term, path tuple)
        self.seen = set()
        self.argidx = {}      # id(call term) -> index of the argument that carries the iterator
        self.adapter_terms = {}   # path tuple -> [(adaptor name, call term)]

    def run(self, local, path=()):
        if (local, path) in self.seen or len(path) > 12:
            return
        self.seen.add((local, path))
        b = self.b
        for bb, w, o in b.uses(local):
            if w == "drop":
                continue
            if w == "stmt":
                rv = o["rv"]
                if rv["k"] == "use" and rv["o"].get("l") == local and not rv["o"].get("p") and not o["place"]["p"]:
                    self.run(o["place"]["l"], path)
                elif rv["k"] in ("ref", "copyderef") and rv["place"]["l"] == local and not o["place"]["p"]:
                    self.run(o["place"]["l"], path)
                elif rv["k"] == "agg":
                    self.terminals.append(("<stored>", o, path, bb))
            elif w.startswith("arg"):
                fn = o["func"].get("fn", {})
                p = fn.get("path", "")
                m = p.rsplit("::", 1)[-1] if p else "<indirect>"
                if m in ADAPTERS or m in POSITIONAL:
                    if not o["dest"]["p"]:
                        self.adapter_terms[path + (m,)] = self.adapter_terms.get(path, []) + [(m, o)]
                        self.run(o["dest"]["l"], path + (m,))
                elif m in ("deref", "deref_mut", "borrow", "borrow_mut", "as_ref", "as_mut", "clone", "from", "into") and not o["dest"]["p"]:
                    self.run(o["dest"]["l"], path)
                else:
                    self.argidx[id(o)] = int(w[3:]) if w[3:].isdigit() else None
                    self.terminals.append((m, o, path, bb))


def in_cycle(b, bb):
    return bb in b.reachable_after(bb)


def pure_scan(b, bb):
    """the loop around block bb writes nothing that is read after (or carried around) the loop and calls nothing through
    `&mut` except the iterator's own next(): all it can do is leave early (all / any / find-a-mismatch style)"""
    fwd = b.reachable_after(bb)
    scc = {x for x in fwd if bb in b.reachable_after(x)} | {bb}
    assigned = set()
    for i in scc:
        for st in b.blocks[i]["stmts"]:
            if st["k"] == "assign":
                assigned.add(st["place"]["l"])
        t = b.blocks[i]["term"]
        if t["k"] == "call":
            assigned.add(t["dest"]["l"])
            callee = t["func"].get("fn", {}).get("path", "")
            if callee.rsplit("::", 1)[-1] in ("next", "into_iter", "iter", "deref", "as_ref", "clone", "branch", "from_residual"):
                continue
            if any(a.startswith("&mut ") for a in t.get("arg_tys", [])):
                return False
    # loop-carried or escaping values: assigned in the loop, read outside it (drop flags and return slot apart)
    for i, blk in enumerate(b.blocks):
        if i in scc:
            continue
        reads = set()
        for st in blk["stmts"]:
            if st["k"] == "assign":
                rv = st["rv"]
                for k in ("o", "a", "b"):
                    if isinstance(rv.get(k), dict) and rv[k].get("k") in ("copy", "move"):
                        reads.add(rv[k]["l"])
                for o in rv.get("ops", []):
                    if isinstance(o, dict) and o.get("k") in ("copy", "move"):
                        reads.add(o["l"])
                if "place" in rv:
                    reads.add(rv["place"]["l"])
        t = blk["term"]
        for a in t.get("args", []) if t["k"] == "call" else []:
            if isinstance(a, dict) and a.get("k") in ("copy", "move"):
                reads.add(a["l"])
        if t["k"] == "switch" and isinstance(t["discr"], dict) and t["discr"].get("k") in ("copy", "move"):
            reads.add(t["discr"]["l"])
        hit = {l for l in (reads & assigned) if b.local_ty(l) != "bool" and l != 0}
        # values computed in the last iteration and consumed on the exit path (the early answer) are order-free only if
        # they do not depend on the element: be strict - none allowed except the iterator's Option being matched
        if hit and i in fwd:
            tys = {b.local_ty(l) for l in hit}
            ok_ty = lambda t: t.startswith(("std::option::Option<", "isize")) or \
                t.startswith("std::ops::ControlFlow<std::option::Option<std::convert::Infallible>")     # `?` on None: carries no data
            if not all(ok_ty(t) for t in tys):
                return False
    return True


def closure_callees(lib, b, term):
    """crate-local / std callees of the closure or fn item passed as an argument of `term`."""
    out = set()
    names = []
    for a in term["args"]:
        if a.get("k") == "const":
            if "fn" in a:
                names.append(a["fn"].get("resolved") or a["fn"]["path"])
            elif "closure" in a:
                names.append(a["closure"])
        elif a.get("k") in ("copy", "move"):
            t = b.local_ty(a["l"])
            m = re.search(r"\{closure@", t)
            if m:
                # closure local: find its aggregate
                for _, s in b.assigns():
                    if s["place"]["l"] == a["l"] and s["rv"]["k"] == "agg" and s["rv"].get("agg") == "closure":
                        names.append(s["rv"]["closure"])
    for n in names:
        cb = lib.body(n)
        if cb is None or n in COMMUTATIVE or "{closure" not in n:
            out.add(n)      # a named function passed as the combiner: judged by name
            continue
        for c in cb.calls:
            if c.callee:
                out.add(c.callee)
        for _, nm, _, _ in cb.fn_operands():
            out.add(nm)
    return names, out


STD_PURE = ("std::", "core::", "alloc::", "<std::", "<core::", "<alloc::", "<&", "<T as", "<I as", "<[", "<(")


def _display_owned(lib, b):
    """a helper that belongs only to rendering functions (extracted from Variable::string / a Display impl)"""
    try:
        from ..owners import for_crate, base
        owners = for_crate(lib).of(b.id)
    except Exception:
        return False
    if not owners or base(b.id) in owners:
        return False
    for o in owners:
        ob = lib.body(o)
        if not (o in DISPLAY_FNS or (ob is not None and ob.impl_trait in DISPLAY_TRAITS)):
            return False
    return True


def keys_preserved(lib, b, start, adaptors):
    """None when every entry handed to the target map carries the key of a source HashMap entry unchanged; else the reason"""
    if start is None:
        return "the source container is not visible here"
    src = (start.term.get("arg_tys") or [""])[0]
    if "HashMap<" not in src and "hash_map::" not in src:
        return "the source is not a map (its elements need not have distinct keys in the target)"
    for m, o in adaptors:
        if m in ("cloned", "copied", "into_iter", "by_ref", "peekable", "fuse", "inspect", "filter", "take_while", "skip_while"):
            continue
        if m != "map":
            return "entries pass through %s" % m
        names, _ = closure_callees(lib, b, o)
        cb = lib.body(names[0]) if len(names) == 1 else None
        if cb is None:
            return "the mapping function cannot be read"
        if not _key_is_arg_key(cb):
            return "the mapping closure does not return the source key as the key"
    return None


def _key_is_arg_key(cb):
    """the closure returns a tuple whose field 0 is (a clone of) field 0 of its argument (_2)"""
    # every pair the closure builds (returned directly or inside Some / Ok)
    roots = [s["rv"]["ops"][0] for _, s in cb.assigns()
             if not s["place"]["p"] and s["rv"]["k"] == "agg" and s["rv"].get("agg") == "tuple" and len(s["rv"]["ops"]) == 2]
    if not roots:
        return False

    def from_arg_key(o, depth=0):
        if depth > 8 or not isinstance(o, dict) or o.get("k") not in ("copy", "move"):
            return False
        proj = [e for e in o.get("p", []) if e["k"] != "deref"]
        if o["l"] == 2:
            return len(proj) == 1 and proj[0]["k"] == "field" and proj[0]["i"] == 0
        if proj:
            return False
        ds = cb.def_sites(o["l"])
        if len(ds) != 1:
            return False
        d = ds[0]
        if d[1] == "assign":
            rv = d[2]["rv"]
            if rv["k"] in ("use", "cast"):
                return from_arg_key(rv["o"], depth + 1)
            if rv["k"] in ("ref", "copyderef"):
                return from_arg_key({"k": "copy", "l": rv["place"]["l"], "p": rv["place"]["p"]}, depth + 1)
            return False
        if d[1] == "call":
            nm = d[2]["func"].get("fn", {}).get("path", "").rsplit("::", 1)[-1]
            if nm in ("clone", "deref", "borrow", "as_ref", "to_owned", "into", "from"):
                return from_arg_key(d[2]["args"][0], depth + 1)
        return False
    return all(from_arg_key(r) for r in roots)


def judge_site(lib, b, start, table, display_exempt=True):
    """Returns (class, detail). class in insensitive/display/table/sensitive."""
    if start.dest["p"]:
        return "sensitive", "iterator stored into a place"
    return _judge(lib, b, start.dest["l"], start, start.callee.rsplit("::", 1)[-1], table, display_exempt, 0)


def _judge(lib, b, local, start, head, table, display_exempt, depth):
    tr = Trace(b)
    tr.run(local)
    terms = tr.terminals
    methods = sorted({m for m, _, _, _ in terms})
    positional = any(set(p) & POSITIONAL for _, _, p, _ in terms)
    sig = "%s|%s" % (head, ",".join(methods) or "-")
    if display_exempt and (b.impl_trait in DISPLAY_TRAITS or b.id in DISPLAY_FNS or _display_owned(lib, b)):
        return "display", sig
    if not terms:
        # iterator returned to the caller (MultiType::iter / into_iter wrappers): judged at the callers
        if b.id in ("variable::multi_type::MultiType::iter", "<&'a variable::multi_type::MultiType as std::iter::IntoIterator>::into_iter"):
            return "insensitive", sig + " (wrapper: returns the iterator, judged at its callers)"
        return "sensitive", sig + " iterator escapes (returned or unused)"
    if positional:
        return "sensitive", sig + " position exposed by enumerate/zip"
    bad = []
    for m, o, path, bb in terms:
        if m in INSENSITIVE:
            continue
        # the iterator handed to a private helper of this crate: judged by what the helper does with that parameter
        fnm = o.get("func", {}).get("fn", {}) if isinstance(o.get("func"), dict) else {}
        hb = lib.body(fnm.get("resolved") or fnm.get("path") or "")
        idx = tr.argidx.get(id(o))
        if hb is not None and hb is not b and "{closure" not in hb.id and idx is not None and depth < 2 and idx + 1 <= hb.arg_count:
            cls, det = _judge(lib, hb, idx + 1, None, m, table, display_exempt, depth + 1)
            if cls == "sensitive":
                bad.append("%s -> %s" % (m, det))
            continue
        if m in ("collect", "extend", "from_iter", "unzip", "sum", "product"):
            dt = o.get("dest_ty", "")
            tys = [dt] + o.get("arg_tys", [])[:1] if m == "extend" else [dt]
            if m == "extend":
                tys = o.get("arg_tys", [])[:1]
            inner = re.sub(r"^(std::option::Option|std::result::Result)<", "", tys[0]) if tys else ""
            if inner.startswith(("std::collections::HashSet<", "&mut std::collections::HashSet<", "variable::multi_type::MultiType")):
                continue        # a set: inserting equal elements in any order gives the same set
            if inner.startswith(("std::collections::HashMap<", "&mut std::collections::HashMap<", "variable::struct_type::StructType",
                                 "&mut instruction::local_variable::LocalVariables")):
                # a map: the last entry written for a key wins, so the entries must arrive with distinct keys - the keys of the
                # source map, unchanged
                why = keys_preserved(lib, b, start, tr.adapter_terms.get(path, []))
                if why is None:
                    continue
                bad.append("%s into a map: %s (an entry written twice is decided by hash order)" % (m, why))
                continue
            if m == "collect" and start is not None and sorted_before_use(b, start):
                continue        # collected, then sorted before anything looks at it
            bad.append("%s into %s" % (m, tys[0] if tys else "?"))
            continue
        if m in FOLDS:
            names, callees = closure_callees(lib, b, o)
            local = {c for c in callees if not c.startswith(STD_PURE) and "{closure" not in c}
            # the query applied per member (map closure) is R-FOLD's business; here: combiner must be commutative
            unknown = {c for c in local if c not in COMMUTATIVE and not c.startswith("variable::r#type::Type::")}
            if m in ("for_each", "try_for_each"):
                bad.append("%s (effects in iteration order)" % m)
            elif unknown:
                bad.append("%s with combiner calling %s" % (m, ", ".join(sorted(unknown))))
            continue
        if m == "next":
            others = {mm for mm, _, _, _ in terms if mm != "next"}
            if others & FOLDS:
                continue        # seed of a fold over the same iterator: judged with the fold
            if not in_cycle(b, bb) and any(mm == "next" and in_cycle(b, b2) and pure_scan(b, b2) for mm, _, _, b2 in terms):
                continue        # seed compared against the rest by an effect-free scan of the same iterator
            if in_cycle(b, bb):
                if pure_scan(b, bb):
                    continue    # a scan without loop-carried state or effects: it can only leave early with a fixed answer
                bad.append("loop over the elements (for / while let)")
            else:
                bad.append("next(): picks the first element in hash order, the rest is dropped")
            continue
        if m in SENSITIVE or True:
            bad.append("%s" % m)
    if not bad:
        return "insensitive", sig
    key = "%s|%s" % (b.id, sig)
    if key in table:
        return "table", sig + " :: " + "; ".join(bad) + " :: permitted: " + table[key][0]
    return "sensitive", sig + " :: " + "; ".join(bad)


def hash_impl_reach(lib):
    roots = [it["path"] for im in lib.impls if im.get("trait") == "std::hash::Hash" for it in im["items"] if it["name"] == "hash"]
    return roots, lib.reach(roots)


def run_order(ctx):
    res = RuleResult("R-HASHORDER", "every iteration over a HashMap/HashSet/MultiType ends in an order-insensitive consumer, a "
                                    "commutative fold, a display-only context, or a reviewed table row")
    lib = ctx.facts.lib
    table = load_table("hash_order.tsv")
    n = 0
    used_rows = set()
    for b in lib.bodies.values():
        seen = {}
        for c in b.calls:
            if not is_start(c):
                continue
            n += 1
            cls, detail = judge_site(lib, b, c, table)
            k = "%s|%s" % (b.id, detail.split(" ")[0])
            seen[k] = seen.get(k, 0) + 1
            key = "hashiter:%s" % k
            if cls == "sensitive":
                res.bad(key, "order-dependent use of a hash container in %s: %s" % (b.id, detail), b.where(c.line))
            else:
                if cls == "table":
                    used_rows.add(k)
                res.ok(key, b.where(c.line), cls + ": " + detail)
    res.floor(n, 28, "iteration_starts")
    # implicit iteration: hash containers handed to generic consumers
    for b in lib.bodies.values():
        for c in b.calls:
            if not c.callee or is_start(c):
                continue
            for i, t in enumerate(c.term.get("arg_tys", [])):
                if not is_hashy(t):
                    continue
                m = c.callee.rsplit("::", 1)[-1]
                key = "hashuse:%s|%s" % (b.id, c.callee)
                cls = classify_use(lib, b, c, i, m)
                if cls[0] == "bad":
                    res.bad(key, "hash container passed to %s in %s: %s" % (c.callee, b.id, cls[1]), b.where(c.line))
                else:
                    res.ok(key, b.where(c.line), cls[1])
    # positive controls
    fx = ctx.fixtures
    got = {}
    for b in fx.bodies.values():
        for c in b.calls:
            if is_start(c):
                got[b.id] = judge_site(fx, b, c, {})[0]
    for want in ("hashorder::pick_first", "hashorder::collect_vec", "hashorder::noncommutative_fold", "hashorder::loop_accumulate"):
        res.control(got.get(want) == "sensitive", want)
    res.control(got.get("hashorder::loop_scan_all_equal") == "insensitive", "negative control hashorder::loop_scan_all_equal (effect-free scan) accepted")
    res.control(got.get("hashorder::all_members") == "insensitive" and got.get("hashorder::into_set") == "insensitive",
                "negative controls hashorder::all_members / into_set accepted")
    return res


NONITER = {"get", "get_mut", "get_key_value", "insert", "remove", "remove_entry", "contains_key", "contains", "len", "is_empty",
           "new", "with_capacity", "entry", "clear", "reserve", "capacity", "is_subset", "is_superset", "is_disjoint",
           "eq", "ne", "clone", "default", "deref", "deref_mut", "as_ref", "borrow", "make_mut", "drop", "from", "into", "fmt",
           "hash", "branch", "from_residual", "unwrap", "expect", "ok_or", "ok_or_else", "map", "clone_from", "as_ptr", "ptr_eq",
           "or_insert", "or_insert_with", "unwrap_or", "unwrap_or_default", "unwrap_or_else", "get_or_insert_with", "take", "replace",
           "is_some", "is_none", "ok", "some", "Some", "Ok", "and_then", "then", "then_some", "cloned", "copied", "as_deref", "retain"}


def classify_use(lib, b, c, i, m):
    if not c.callee.startswith(("std::", "core::", "alloc::", "<std::", "<core::", "<alloc::", "itertools::", "<T as", "<I as", "<&")):
        return ("ok", "crate-local callee: analysed in its own body")
    if m in NONITER:
        return ("ok", "does not expose iteration order")
    if m == "extend":
        t = c.term.get("arg_tys", [""])[0]
        if is_hashy(t) or "LocalVariables" in t:
            return ("ok", "extend into a hash container")
        return ("bad", "extend of an ordered collection from a hash container")
    if m in ("from_iter", "collect"):
        dt = c.term.get("dest_ty", "")
        if is_hashy(dt):
            return ("ok", "collected into a hash container")
        return ("bad", "collected into %s" % dt)
    if b.impl_trait in DISPLAY_TRAITS or b.id in DISPLAY_FNS:
        return ("ok", "display-only context")
    return ("bad", "unclassified consumer `%s` of a hash container (may expose its order)" % m)


def run_hash(ctx):
    res = RuleResult("R-HASH", "no Hash impl of a crate type (nor anything it calls) observes the iteration order of a hash "
                               "container: equal values hash equally")
    lib = ctx.facts.lib
    roots, reach = hash_impl_reach(lib)
    res.floor(len(roots), 3, "hash_impls")
    n = 0
    for name in reach:
        b = lib.body(name)
        if b is None:
            continue
        for c in b.calls:
            if not is_start(c):
                continue
            n += 1
            cls, detail = judge_site(lib, b, c, {}, display_exempt=False)
            key = "hash-impl-iter:%s|%s" % (b.id, detail.split(" ")[0])
            if cls == "sensitive" and not sorted_before_use(b, c):
                res.bad(key, "%s (reachable from a Hash impl: %s) feeds hash-order-dependent data to the hasher: structurally equal "
                             "values get different hashes, so HashSet<Type> equality / lookup of equal types fails at random: %s"
                        % (b.id, " -> ".join(lib.chain(reach, name)), detail), b.where(c.line))
            else:
                res.ok(key, b.where(c.line), cls + ": " + detail)
    for r in roots:
        res.ok("hash-impl:" + r, "", "reaches %d bodies" % len([x for x in lib.reach([r]) if lib.body(x)]))
    # positive control
    fx = ctx.fixtures
    fired = False
    froots = [it["path"] for im in fx.impls if im.get("trait") == "std::hash::Hash" for it in im["items"] if it["name"] == "hash"]
    for name in fx.reach(froots):
        fb = fx.body(name)
        if fb is None:
            continue
        for c in fb.calls:
            if is_start(c) and judge_site(fx, fb, c, {}, display_exempt=False)[0] == "sensitive" and not sorted_before_use(fb, c):
                if "OrderHash" in name:
                    fired = True
            if is_start(c) and "SortedHash" in name and not sorted_before_use(fb, c):
                fired = False
                res.control(False, "negative control hashorder::SortedHash (sorted before hashing) must be accepted")
    res.control(fired, "hashorder::OrderHash::hash")
    return res


def sorted_before_use(b, start):
    """collect() into a Vec/Box<[T]> whose only consumer order is fixed by a sort call in the same body."""
    return any(c.callee.rsplit("::", 1)[-1] in ("sort", "sort_unstable", "sort_by", "sort_by_key", "sort_unstable_by", "sort_unstable_by_key",
                                                 "sort_by_cached_key")
               and b.dominates(start.bb, c.bb) for c in b.calls)


def run_nondet(ctx):
    res = RuleResult("R-NONDET", "outside stdlib::{fs,io} the library calls no clock, environment, process/thread identity or "
                                 "fresh random hasher state; no pointer-to-integer cast")
    lib = ctx.facts.lib
    n = 0
    for b in lib.bodies.values():
        if b.id.startswith(NONDET_OK_MODULES):
            continue
        for c in b.calls:
            n += 1
            if c.callee.startswith(NONDET_PREFIXES):
                res.bad("nondet:%s|%s" % (b.id, c.callee), "%s calls %s: the outcome may differ from run to run" % (b.id, c.callee), b.where(c.line))
        for _, s in b.assigns():
            rv = s["rv"]
            if rv["k"] == "cast" and ("PointerExposeProvenance" in rv["kind"] or "PointerExposeAddress" in rv["kind"]):
                res.bad("nondet:%s|ptr-to-int" % b.id, "%s casts a pointer to an integer (addresses differ between runs)" % b.id, b.where(s.get("line")))
    res.ok("nondet:calls-scanned", "", "%d call sites, none into time/env/process/thread/RandomState" % n)
    res.floor(n, 3000, "calls_scanned")
    fx = ctx.fixtures
    fired = any(c.callee.startswith(NONDET_PREFIXES) for b in fx.bodies.values() if b.id.startswith("hashorder::clock") for c in b.calls)
    res.control(fired, "hashorder::clock")
    return res
