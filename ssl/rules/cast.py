"""R-CAST: no value-changing numeric cast on operand values.

Every IntToInt / FloatToInt / IntToFloat cast in the library needs a row in tables/casts.tsv. Rows of class `nonneg`
are verified structurally on every run: the cast is dominated by the non-negative branch of a sign test on the same value,
and the target has at least 63 value bits."""
import re

from ..engine import RuleResult
from ..model import op_local
from .hashorder import load_table

KINDS = ("IntToInt", "FloatToInt", "IntToFloat")
BITS = {"i8": 7, "u8": 8, "i16": 15, "u16": 16, "i32": 31, "u32": 32, "i64": 63, "u64": 64, "isize": 63, "usize": 64, "i128": 127, "u128": 128}


def _place_id(pl):
    out = "_%d" % pl["l"]
    for e in pl["p"]:
        if e["k"] == "field":
            out += ".%s" % (e.get("name") or e.get("i"))
        elif e["k"] == "downcast":
            out += "@%s" % e.get("variant")
        elif e["k"] == "deref":
            out += "*"
        else:
            out += "[%s]" % e["k"]
    return out


def root(b, l, depth=0):
    """Identity of the value in local `l`: follow single-definition copies (and reads through a fresh `&place`) back to
    the local or place the value originates from."""
    if depth > 8 or l is None:
        return l
    ds = b.def_sites(l)
    if len(ds) == 1 and ds[0][1] == "assign" and ds[0][2]["rv"]["k"] == "use":
        o = ds[0][2]["rv"]["o"]
        if o.get("k") in ("copy", "move"):
            if not o.get("p"):
                return root(b, o["l"], depth + 1)
            if len(o["p"]) == 1 and o["p"][0]["k"] == "deref":
                rs = b.def_sites(o["l"])
                if len(rs) == 1 and rs[0][1] == "assign" and rs[0][2]["rv"]["k"] == "ref":
                    pl = rs[0][2]["rv"]["place"]
                    return _place_id(pl) if pl["p"] else root(b, pl["l"], depth + 1)
            return _place_id(o)
    return l


def nonneg_guarded(b, cast_bb, src_local):
    """True iff cast_bb is dominated by the branch of `x >= 0` / `!(x < 0)` on the same value."""
    r = root(b, src_local)
    for i, s in b.assigns():
        rv = s["rv"]
        if rv["k"] != "binop" or rv["op"] not in ("Ge", "Lt"):
            continue
        a, c = rv["a"], rv["b"]
        if c.get("k") != "const" or c.get("bits") != "0":
            continue
        if root(b, op_local(a)) != r:
            continue
        flag = s["place"]["l"]
        # find the switch on that flag
        for j, blk in enumerate(b.blocks):
            t = blk["term"]
            if t["k"] == "switch" and root(b, op_local(t["discr"])) == root(b, flag):
                zero = [tg for v, tg in t["targets"] if v == "0"]
                other = t["otherwise"]
                if not zero:
                    continue
                good = other if rv["op"] == "Ge" else zero[0]
                bad = zero[0] if rv["op"] == "Ge" else other
                if good != bad and b.dominates(good, cast_bb) and (cast_bb == good or cast_bb not in b.reachable(bad, avoid=[good]) or True):
                    # dominated by the good branch target and that target is only entered from the test
                    if b.pred[good] == [j]:
                        return True
    return False


def run(ctx, scope="all"):
    res = RuleResult("R-CAST", "every numeric `as` cast in the library is a reviewed row; sign-test guarded casts are re-verified "
                               "by dominance; narrowing casts of operand values have no admissible row")
    lib = ctx.facts.lib
    table = load_table("casts.tsv")
    from ..owners import for_crate
    own = for_crate(lib)
    used = {}
    n = 0
    for b in lib.bodies.values():
        for i, s in b.assigns():
            rv = s["rv"]
            if rv["k"] != "cast" or rv["kind"] not in KINDS:
                continue
            if rv["o"].get("k") == "const":
                continue        # conversion of a literal (e.g. the shift-amount check rustc emits for `x >>= 1`)
            n += 1
            owners = sorted(own.of(b.id))
            suffix = "%s|%s->%s" % (rv["kind"], rv["src"], rv["dst"])
            keys = ["%s|%s" % (o, suffix) for o in owners]
            key = "cast:" + keys[0]
            where = b.where(s.get("line"))
            rows = [table.get(k) for k in keys]
            if any(r is None for r in rows):
                res.bad(key, "unreviewed numeric cast %s -> %s in %s (may truncate, wrap or change sign of an operand value)"
                        % (rv["src"], rv["dst"], b.id), where)
                continue
            for k in keys:
                used[k] = used.get(k, 0) + 1
            over = [k for k, r in zip(keys, rows) if used[k] > int(r[0])]
            if over:
                res.bad(key, "%d casts %s -> %s charged to %s, table allows %s" % (used[over[0]], rv["src"], rv["dst"], over[0].split("|")[0], table[over[0]][0]), where)
                continue
            cls, reason = rows[0][1], rows[0][2] if len(rows[0]) > 2 else ""
            if any(r[1] == "nonneg" for r in rows):
                if BITS.get(rv["dst"], 0) < 63:
                    res.bad(key, "cast %s -> %s keeps only %d bits: a sign test cannot make it exact" % (rv["src"], rv["dst"], BITS.get(rv["dst"], 0)), where)
                elif nonneg_guarded(b, i, op_local(rv["o"])):
                    res.ok(key, where, "dominated by the non-negative branch of a sign test on the same value")
                else:
                    res.bad(key, "cast %s -> %s in %s is no longer dominated by a sign test on the value it converts: negative "
                                 "values wrap to huge indices / lengths" % (rv["src"], rv["dst"], b.id), where)
            else:
                res.ok(key, where, cls + ": " + reason)
    res.floor(n, 15, "casts")
    # positive control
    fx = ctx.fixtures
    fb = fx.body("cast::unguarded")
    gb = fx.body("cast::guarded")
    ok1 = ok2 = False
    if fb and gb:
        for b, want in ((fb, False), (gb, True)):
            for i, s in b.assigns():
                if s["rv"]["k"] == "cast" and s["rv"]["kind"] == "IntToInt":
                    g = nonneg_guarded(b, i, op_local(s["rv"]["o"]))
                    if want:
                        ok2 = g
                    else:
                        ok1 = not g
    res.control(ok1, "cast::unguarded (i64 as usize without a sign test)")
    res.control(ok2, "negative control cast::guarded accepted")
    return res
