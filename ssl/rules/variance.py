"""R-VARIANCE (property C10, structural part): the direction in which `matches` compares the parts of two types.

A provenance analysis labels every value in Type::matches, FunctionType::matches, StructType::matches and their
closures with where it comes from: the left operand S (`self`), the right operand O (`other`), through which field
(`params`, `return_type`) and which variant payload (`Mut`, `Array` ...). Closures get the labels of what they capture
and of the iterator they are handed to (`zip(a, b)` yields pairs). Obligations, each a clause of C10:

  covariant      every recursive comparison in Type::matches / StructType::matches is matches(part of S, part of O)
  contravariant  the parameters of function types are compared matches(param of O, param of S); results (S, O)
  invariant      no recursive `matches` on the payload of a `mut` type (cells fall to `==`)
  union left     when the members of S are iterated the combinator is `all`; when the members of O are iterated, `any`
  tuples         member-wise over zip(S, O) with `all`, lengths compared
  structs        the fields of O are iterated and looked up in S (width), the missing key answers false
  bottom / top   the arm for S = `!` and the arm for O = `any` answer true without consulting anything

Not decided: reflexivity, transitivity, the meet, value soundness (they quantify over all types)."""
from ..engine import RuleResult
from ..model import enum_switches, arm_region, calls_in, op_local

TM = "variable::r#type::Type::matches"
FM = "variable::function_type::FunctionType::matches"
SM = "variable::struct_type::StructType::matches"
PASS0 = {"deref", "iter", "into_iter", "next", "as_ref", "borrow", "clone", "unwrap", "expect", "get", "index", "as_slice", "as_deref",
         "keys", "values", "len", "by_ref", "copied", "cloned"}


class Prov:
    """labels: frozenset of strings like 'S', 'O.params', 'S:Mut', or pairs ('P', a, b) for zip items"""

    def __init__(self, lib, b, seed):
        self.lib = lib
        self.b = b
        self.lab = {k: set(v) for k, v in seed.items()}
        self.closure_env = {}       # closure id -> [labels per upvar]
        self.closure_item = {}      # closure id -> labels of the iterator it is handed to
        self.fix()

    @staticmethod
    def _proj(labels, proj):
        out = set()
        for lab in labels:
            cur = lab
            after_downcast = False
            for e in proj:
                payload = after_downcast and e["k"] == "field"      # `(x as Some).0` selects the payload, not a pair component
                after_downcast = e["k"] == "downcast"
                if payload and isinstance(cur, tuple) and cur[0] == "P":
                    continue
                if isinstance(cur, tuple) and cur[0] == "P" and e["k"] == "field" and e.get("i") in (0, 1):
                    cur = cur[1 + e["i"]]
                    continue
                if isinstance(cur, tuple) and cur[0] == "ENV" and e["k"] == "field":
                    cur = cur[1][e["i"]] if e["i"] < len(cur[1]) else frozenset()
                    continue
                if isinstance(cur, (set, frozenset)):
                    cur = frozenset(x2 for x in cur for x2 in Prov._proj({x}, [e]))
                    continue
                if isinstance(cur, str):
                    if e["k"] == "field" and e.get("name") in ("params", "return_type") and "." not in cur:
                        cur = cur + "." + e["name"]
                    elif e["k"] == "downcast" and e.get("enum", "").endswith("r#type::Type") and ":" not in cur:
                        cur = cur + ":" + e["variant"]
            if isinstance(cur, (set, frozenset)):
                out |= set(cur)
            else:
                out.add(cur)
        return out

    def of_place(self, l, proj):
        return self._proj(self.lab.get(l, set()), proj)

    def of_op(self, o):
        if not isinstance(o, dict) or o.get("k") not in ("copy", "move"):
            return set()
        return self.of_place(o["l"], o.get("p", []))

    def _add(self, l, labs):
        cur = self.lab.setdefault(l, set())
        n = len(cur)
        cur |= labs
        return len(cur) != n

    def fix(self):
        b = self.b
        changed = True
        rounds = 0
        while changed and rounds < 40:
            changed = False
            rounds += 1
            for blk in b.blocks:
                for st in blk["stmts"]:
                    if st["k"] != "assign":
                        continue
                    d = st["place"]["l"]
                    rv = st["rv"]
                    k = rv["k"]
                    if k in ("use", "cast"):
                        changed |= self._add(d, self.of_op(rv["o"]))
                    elif k in ("ref", "copyderef", "discr", "rawptr"):
                        changed |= self._add(d, self.of_place(rv["place"]["l"], rv["place"]["p"]))
                    elif k == "agg":
                        if rv.get("agg") == "closure":
                            self.closure_env[rv["closure"]] = [frozenset(self.of_op(o)) for o in rv["ops"]]
                            changed |= self._add(d, {("CL", rv["closure"])})
                        elif rv.get("agg") == "tuple":
                            ops = [frozenset(self.of_op(o)) for o in rv["ops"]]
                            if len(ops) == 2:
                                changed |= self._add(d, {("P", ops[0], ops[1])})
                            else:
                                u = set()
                                for x in ops:
                                    u |= x
                                changed |= self._add(d, u)
                t = blk["term"]
                if t["k"] != "call" or not t.get("args"):
                    continue
                callee = t["func"].get("fn", {}).get("resolved") or t["func"].get("fn", {}).get("path", "")
                last = callee.rsplit("::", 1)[-1]
                d = t["dest"]["l"]
                a0 = self.of_op(t["args"][0])
                if last == "zip" and len(t["args"]) == 2:
                    changed |= self._add(d, {("P", frozenset(a0), frozenset(self.of_op(t["args"][1])))})
                elif last in ("all", "any", "find", "position", "map", "filter", "for_each", "is_some_and", "is_none_or", "is_ok_and", "and_then",
                              "map_or", "filter_map", "find_map", "try_for_each", "inspect") and len(t["args"]) >= 2:
                    for arg in t["args"][1:]:
                        for lab in self.of_op(arg):
                            if isinstance(lab, tuple) and lab[0] == "CL":
                                self.closure_item[lab[1]] = (last, frozenset(a0))
                        # a named function handed to the combinator instead of a closure
                        if isinstance(arg, dict) and arg.get("k") == "const" and "fn" in arg:
                            f = arg["fn"]
                            self.closure_item[("FN", f.get("resolved") or f["path"])] = (last, frozenset(a0))
                elif last in PASS0:
                    changed |= self._add(d, a0)


def flat(labels):
    out = set()
    for x in labels:
        if isinstance(x, (set, frozenset)):
            out |= flat(x)
        elif isinstance(x, tuple) and x[0] == "P":
            out |= flat(x[1]) | flat(x[2])
        elif isinstance(x, str):
            out.add(x)
    return out


def side(labels):
    """'S', 'O', 'SO' or '' """
    f = flat(labels)
    s = any(x.startswith("S") for x in f)
    o = any(x.startswith("O") for x in f)
    return ("S" if s else "") + ("O" if o else "")


def analyse(lib, fid, targets=None):
    """[(body, call, labels arg0, labels arg1)] for the comparison calls in fid and its closures, plus combinator uses"""
    targets = targets or (TM, FM, SM)
    b = lib.body(fid)
    if b is None:
        return None, [], []
    top = Prov(lib, b, {1: {"S"}, 2: {"O"}})
    from ..owners import for_crate
    helper_ids = {hb.id for hb in for_crate(lib).members(fid) if "{closure#" not in hb.id and hb.id != fid}
    provs = {b.id: top}
    work = [top]
    while work:
        p = work.pop()
        for cid, env in p.closure_env.items():
            cb = lib.body(cid)
            if cb is None or cid in provs:
                continue
            how = p.closure_item.get(cid)
            item = set(how[1]) if how else set()
            seed = {1: {("ENV", tuple(env))}, 2: item}
            # the item of an iterator over a zip is the pair; over a plain iterator the element
            q = Prov(lib, cb, seed)
            provs[cid] = q
            work.append(q)
        # private helpers that belong to fid alone (functions that did not exist when the rule was reviewed): entered with the
        # labels of the arguments at the call site, or - when handed to a combinator by name - with the labels of the items
        for c in p.b.calls:
            if c.callee in helper_ids and c.callee not in provs:
                hb = lib.body(c.callee)
                q = Prov(lib, hb, {i + 1: set(p.of_op(a)) for i, a in enumerate(c.args)})
                provs[c.callee] = q
                work.append(q)
        for key, how in list(p.closure_item.items()):
            if isinstance(key, tuple) and key[0] == "FN" and key[1] in helper_ids and key[1] not in provs:
                hb = lib.body(key[1])
                q = Prov(lib, hb, {1: set(how[1])})
                provs[key[1]] = q
                work.append(q)
    calls = []
    combs = []
    for bid, p in provs.items():
        for c in p.b.calls:
            if c.callee in targets and len(c.args) == 2:
                calls.append((p.b, c, p.of_op(c.args[0]), p.of_op(c.args[1])))
            last = c.path.rsplit("::", 1)[-1]
            if last in ("all", "any") and len(c.args) == 2:
                combs.append((p.b, c, last, p.of_op(c.args[0])))
    analyse.last_provs = provs
    return b, calls, combs


def run(ctx):
    res = RuleResult("R-VARIANCE", "directions of the subtype test: covariant parts compared (S, O), function parameters (O, S), cells by "
                                   "equality, unions with all / any on the correct side, struct fields of O looked up in S, `!` and `any` "
                                   "answered without consulting anything")
    lib = ctx.facts.lib
    n = 0
    # ---- Type::matches
    b, calls, combs = analyse(lib, TM)
    if not res.anchor(b is not None, TM):
        return res
    analyse_provs_tm = dict(analyse.last_provs)
    res.floor(len(calls), 6, "comparisons in Type::matches")
    for cb, c, a0, a1 in calls:
        n += 1
        key = "variance:Type::matches|%s|%s" % (c.callee.rsplit("::", 2)[-2], cb.id.rsplit("::", 1)[-1])
        s0, s1 = side(a0), side(a1)
        if any(":Mut" in x for x in flat(a0) | flat(a1)):
            res.bad(key + "|mut", "Type::matches compares the contents of two `mut` types with `matches`: cells must be invariant (a `mut int` "
                                  "is not a `mut int|float`: the wider cell accepts a float)", cb.where(c.line))
        elif (s0, s1) == ("S", "O"):
            res.ok(key, cb.where(c.line), "part of the left type against part of the right type (covariant)")
        else:
            res.bad(key, "Type::matches compares %s against %s: arrays, tuples, struct fields, union members and function types as a "
                         "whole must be compared left part against right part" % (_name(s0), _name(s1)), cb.where(c.line))
    for cb, c, which, recv in combs:
        sd = side(recv)
        key = "variance:union|%s|%s" % (which, cb.id.rsplit("::", 1)[-1])
        has_pair = any(isinstance(x, tuple) and x[0] == "P" for x in recv)
        if has_pair:
            if which == "all":
                res.ok(key, cb.where(c.line), "tuple members pairwise: all")
            else:
                res.bad(key, "tuple members must all match pairwise (found `%s`)" % which, cb.where(c.line))
        elif sd == "S":
            if which == "all":
                res.ok(key, cb.where(c.line), "a union on the left lies below T exactly when all its members do")
            else:
                res.bad(key, "the members of the LEFT union are combined with `%s`: a union lies below a type only if all its members do" % which, cb.where(c.line))
        elif sd == "O":
            if which == "any":
                res.ok(key, cb.where(c.line), "a type lies below a union on the right when it lies below some member")
            else:
                res.bad(key, "the members of the RIGHT union are combined with `%s`: a type matches a union if it matches any member" % which, cb.where(c.line))
        else:
            res.broken.append("Type::matches: iterator combinator over something that is neither operand (%s)" % sorted(flat(recv)))
    res.floor(len(combs), 3, "all/any in Type::matches")
    if len([c for q in analyse_provs_tm.values() for c in q.b.calls if c.path.endswith("::len")]) >= 2:
        res.ok("variance:tuple|arity", b.where(), "tuple lengths compared")
    else:
        res.bad("variance:tuple|arity", "Type::matches no longer compares the lengths of two tuple types (zip stops at the shorter one: (int, int) "
                                        "would match (int, int, string))", b.where())
    # invariance of cells: the only decision on a Mut payload is equality (no arm of its own)
    # bottom / top
    sws = enum_switches(b, "variable::r#type::Type")
    top_p = Prov(lib, b, {1: {"S"}, 2: {"O"}})
    never_ok = any_ok = False
    any_arms = 0
    for sw in sws:
        sd = side(top_p.of_place(sw["place"]["l"], sw["place"]["p"]))
        for v, tgt in sw["arms"].items():
            region = arm_region(b, tgt)
            quiet = not [c for c in calls_in(b, region) if c.callee]
            sets_true = any(st["k"] == "assign" and st["place"]["l"] == 0 and st["rv"]["k"] == "use" and st["rv"]["o"].get("val") == "true"
                            for bb in region for st in b.blocks[bb]["stmts"])
            if sd == "S" and v == "Never":
                never_ok = never_ok or (quiet and sets_true)
                if not (quiet and sets_true):
                    res.bad("variance:bottom", "the arm of Type::matches for a left operand `!` does not simply answer true", b.where(sw.get("line")))
            if sd == "O" and v == "Any":
                any_arms += 1
                if quiet and sets_true:
                    any_ok = True
                else:
                    res.bad("variance:top", "an arm of Type::matches for a right operand `any` does not simply answer true", b.where(sw.get("line")))
    if never_ok:
        res.ok("variance:bottom", b.where(), "`!` matches everything")
    else:
        res.anchor(False, "arm of Type::matches for a left operand `!`")
    if any_ok:
        res.ok("variance:top", b.where(), "everything matches `any` (%d arms)" % any_arms)
    else:
        res.anchor(False, "arm of Type::matches for a right operand `any`")
    # ---- FunctionType::matches
    fb, fcalls, fcombs = analyse(lib, FM)
    if res.anchor(fb is not None, FM):
        top_f = Prov(lib, fb, {1: {"S"}, 2: {"O"}})
        seen = set()
        for cb, c, a0, a1 in fcalls:
            n += 1
            f0, f1 = flat(a0), flat(a1)
            if any(x.endswith(".params") for x in f0 | f1):
                seen.add("params")
                key = "variance:function|params"
                if f0 and f1 and all(x.startswith("O") for x in f0) and all(x.startswith("S") for x in f1):
                    res.ok(key, cb.where(c.line), "parameter of the right type against parameter of the left type (contravariant)")
                else:
                    res.bad(key, "function parameters are compared %s against %s: they must be compared right against left (a function that "
                                 "accepts more may stand in for one that accepts less)" % (_name(side(a0)), _name(side(a1))), cb.where(c.line))
            elif any(x.endswith(".return_type") for x in f0 | f1):
                seen.add("result")
                key = "variance:function|result"
                if (side(a0), side(a1)) == ("S", "O"):
                    res.ok(key, cb.where(c.line), "result of the left type against result of the right type (covariant)")
                else:
                    res.bad(key, "function results are compared %s against %s" % (_name(side(a0)), _name(side(a1))), cb.where(c.line))
        for w in ("params", "result"):
            res.anchor(w in seen, "comparison of function %s in FunctionType::matches" % w)
        lens = [c for c in fb.calls if c.path.endswith("::len")]
        key = "variance:function|arity"
        if len(lens) >= 2:
            res.ok(key, fb.where(), "parameter counts compared")
        else:
            res.bad(key, "FunctionType::matches no longer compares the number of parameters (zip stops at the shorter list)", fb.where())
        # the conjuncts are mandatory: once the arity test, a parameter comparison or the result comparison has failed, no
        # way may lead to a true answer (a disjunct such as `|| the result is ()` opens one)
        true_sources = []
        for blk_i, blk in enumerate(fb.blocks):
            for st in blk["stmts"]:
                if st["k"] == "assign" and st["place"]["l"] == 0 and not st["place"]["p"]:
                    o = st["rv"].get("o", {})
                    if not (st["rv"]["k"] == "use" and o.get("k") == "const" and o.get("val") == "false"):
                        true_sources.append(blk_i)
        for c in fb.calls:
            if c.dest["l"] == 0 and not c.dest["p"]:
                true_sources.append(c.bb)

        def switch_on(local):
            return next((i for i, blk in enumerate(fb.blocks) if blk["term"]["k"] == "switch" and op_local(blk["term"]["discr"]) == local), None)
        gates = []      # (what, block where the comparison has failed)
        for blk_i, blk in enumerate(fb.blocks):
            for st in blk["stmts"]:
                if st["k"] == "assign" and st["rv"]["k"] == "binop" and st["rv"].get("op") in ("Eq", "Ne") and st["rv"].get("ty") == "usize":
                    sw = switch_on(st["place"]["l"])
                    if sw is not None:
                        t = fb.blocks[sw]["term"]
                        zero = [tg for v, tg in t["targets"] if v == "0"]
                        fail = (zero[0] if zero else None) if st["rv"]["op"] == "Eq" else t["otherwise"]
                        if fail is not None:
                            gates.append(("arity", fail))
        for c in fb.calls:
            what = None
            if c.path.rsplit("::", 1)[-1] == "all":
                what = "params"
            elif c.callee == TM:
                labs = flat(top_f.of_op(c.args[0])) | flat(top_f.of_op(c.args[1]))
                what = "params" if any(x.endswith(".params") for x in labs) else "result" if any(x.endswith(".return_type") for x in labs) else None
            if what is None or c.dest["l"] == 0:
                continue
            sw = switch_on(c.dest["l"])
            if sw is None:
                continue
            t = fb.blocks[sw]["term"]
            zero = [tg for v, tg in t["targets"] if v == "0"]
            if zero:
                gates.append((what, zero[0]))
        # the result comparison comes last: nothing else may produce a true answer beside it
        rcalls = [c for c in fb.calls if c.callee == TM and any(x.endswith(".return_type") for x in flat(top_f.of_op(c.args[0])) | flat(top_f.of_op(c.args[1])))]
        key = "variance:function|mandatory-result"
        if len(rcalls) == 1:
            rc = rcalls[0]
            stray = [ts for ts in true_sources if ts != rc.bb and rc.bb not in fb.dom[ts]]
            if stray:
                res.bad(key, "FunctionType::matches can answer true without comparing the result types (%s): a function whose result does not "
                             "fit is accepted where another result type is expected" % fb.where(fb.blocks[stray[0]]["term"].get("line")), fb.where())
            else:
                res.ok(key, fb.where(rc.line), "every true answer comes from (or after) the comparison of the result types")
        for what, fail in gates:
            key = "variance:function|mandatory-%s" % what
            reach = fb.reachable(fail)
            leak = [ts for ts in true_sources if ts in reach]
            if leak:
                res.bad(key, "FunctionType::matches can still answer true after the %s comparison failed (%s): a function whose %s does not "
                             "fit is accepted" % (what, fb.where(fb.blocks[leak[0]]["term"].get("line")), what), fb.where())
            else:
                res.ok(key, fb.where(), "a failed %s comparison cannot lead to a true answer" % what)
        for cb, c, which, recv in fcombs:
            if which != "all":
                res.bad("variance:function|all", "all parameters must be compared (found `%s`)" % which, cb.where(c.line))
    # ---- StructType::matches
    sb, scalls, scombs = analyse(lib, SM)
    if res.anchor(sb is not None, SM):
        provs = list(analyse.last_provs.values())
        iters = [(p, c) for p in provs for c in p.b.calls if c.path.rsplit("::", 1)[-1] in ("iter", "keys") and "HashMap" in c.path]
        gets = [(p, c) for p in provs for c in p.b.calls if c.path.rsplit("::", 1)[-1] in ("get", "contains_key") and "HashMap" in c.path]
        key = "variance:struct|width"
        ok = bool(iters) and bool(gets) and all(side(p.of_op(c.args[0])) == "O" for p, c in iters) and all(side(p.of_op(c.args[0])) == "S" for p, c in gets)
        if ok:
            res.ok(key, sb.where(), "the fields of the right type are iterated and looked up in the left type (extra fields on the left are fine)")
        else:
            res.bad(key, "StructType::matches must iterate the fields of the RIGHT type and look each up in the LEFT one (width subtyping): "
                         "iterating the left one rejects a struct with extra fields / ignores fields the right type demands", sb.where())
        for cb, c, a0, a1 in scalls:
            n += 1
            key = "variance:struct|field"
            if (side(a0), side(a1)) == ("S", "O"):
                res.ok(key, cb.where(c.line), "field of the left type against field of the right type (covariant)")
            else:
                res.bad(key, "struct fields are compared %s against %s" % (_name(side(a0)), _name(side(a1))), cb.where(c.line))
        res.anchor(bool(scalls), "field comparison in StructType::matches")
        for cb, c, which, recv in scombs:
            if side(recv) == "O" and which != "all":
                res.bad("variance:struct|all", "every field the right type demands must be present and match (found `%s` over its fields)" % which, cb.where(c.line))
    res.stats["comparisons"] = n
    return res


def _name(s):
    return {"S": "a part of the left type", "O": "a part of the right type", "SO": "a mixture of both", "": "something else"}[s]
