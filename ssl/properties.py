"""Property -> rules."""
from . import engine
from .rules import tables, errflow

TRUST_COMMON = ["rustc (type checking, MIR construction, Instance resolution)", "pest / pest_meta (PEG + Pratt semantics)"]

PROPS = {}


NOT_APPLICABLE = {
    "C10": "subtype laws (reflexivity, transitivity, bounds, value soundness) quantify over an infinite type universe: deciding "
           "them needs induction or enumeration, not a shape of the code; the only structural surrogate (arm order of "
           "Type::matches) would be a frozen copy of the function, i.e. a false alarm in waiting (DESIGN.md C10)",
    "C11": "the iterator operators are written in SimpleSL source embedded in Rust string literals (MAP, FILTER, ITER, the "
           "TypeFilter template, stdlib/operators.rs): Rust-level static analysis cannot see inside them, and equality of the "
           "remaining Rust loops to a fold is value-level (DESIGN.md C11)",
    "C15": "a relation between a printer (Display derives with inline conditionals) and a PEG parser over all types: "
           "value-level round trip; the only structural surrogate would be a source-fragment match (DESIGN.md C15)",
}


def prop(pid, rules, explanation, assumptions, trusted=None, level_text="", level_note="", technique="", design_ref=""):
    PROPS[pid] = dict(rules=rules, explanation=explanation, assumptions=assumptions, trusted=trusted or TRUST_COMMON,
                      level_text=level_text or explanation, level_note=level_note or "; ".join(assumptions),
                      technique=technique, design_ref=design_ref or "DESIGN.md section 4, " + pid)


prop("C14", [tables.run_precedence],
     "Static table agreement (R-TABLES): the documented 14-level precedence table, the PRATT_PARSER levels "
     "(recovered from the MIR of its lazy_static initialiser), the grammar's prefix/infix/postfix operator choices "
     "(parsed with pest_meta), the Rule->BinOperator map with the operators' Display tokens, and the dispatch arms of "
     "create_prefix/create_postfix/create_infix are compared row by row; every ordered pair of operator literals is "
     "checked for PEG shadowing (an earlier literal that is a prefix of a later one splits the longer operator). "
     "Decides the property given pest's Pratt parser implements precedence climbing as documented.",
     ["pest's PrattParser groups by the registered level order and Assoc", "PEG choice is ordered",
      "docs/operators.md is the documented table; four operators it omits are placed as the property statement says"],
     technique="static table agreement: docs table / Pratt table (from MIR) / pest grammar / operator enum / dispatch arms + PEG literal shadowing",
     level_text="Decides the property for all expressions, given pest's Pratt parser: 52 operator rows are compared across five "
                "sources and ~900 ordered literal pairs are checked for shadowing; nothing is executed.")


def run(pid, tier, seed):
    if pid not in PROPS:
        print("unknown or not-applicable property %s" % pid)
        return 2
    p = PROPS[pid]
    return engine.run_property(pid, p["rules"], tier, seed, p["explanation"], p["assumptions"], p["trusted"])
