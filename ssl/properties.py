"""Property -> rules. Every claimed property decides a *structural* part (stated in `text`), not the whole behaviour."""
from functools import partial

from . import engine
from .rules import (tables, errflow, stop, scope, fold, hashorder, eqfield, cast, lock, witness, orpat, guard, parsepure,
                    kernel, evalorder, layer, export, panic, misc, pairflowrule, variant, folddrop, queryguard, iterops, round3, forshape, typeprint, variance, round4, round6, round8, round10, round11)

TRUST = ["rustc: type checking, MIR construction, Instance resolution, auto traits",
         "pest / pest_meta: PEG semantics, silent/atomic rule semantics, PrattParser precedence climbing",
         "std: wrapping_* arithmetic, RwLock, slice / iterator order"]

NOT_APPLICABLE = {
}

PROPS = {}


def prop(pid, rules, text, technique, note):
    PROPS[pid] = dict(rules=rules, explanation=text, assumptions=[note], trusted=TRUST, level_text=text, level_note=note,
                      technique=technique, design_ref="DESIGN.md section 4, " + pid)


def scope_prefix(*prefixes):
    return lambda bid: bid.startswith(prefixes)


KERNEL_SCOPE = scope_prefix("instruction::bin_op::", "instruction::prefix_op::", "<instruction::bin_op::")
INDEX_SCOPE = scope_prefix("instruction::at::", "instruction::slicing::", "<instruction::slicing::", "stdlib::len")
FOLD_SCOPE = lambda bid: "create_from_instruction" in bid or bid.endswith("Recreate>::recreate") or bid.endswith("::recreate")
ITER_SCOPE = scope_prefix("instruction::reduce::", "<instruction::reduce::", "instruction::bin_op::map::", "instruction::bin_op::filter::",
                          "instruction::bin_op::partition::", "instruction::unary_operation::iter::", "instruction::type_filter::",
                          "<instruction::type_filter::", "instruction::r#loop::r#for::")
STDLIB_SCOPE = scope_prefix("stdlib::", "<stdlib::", "variable::try_from::", "<variable::Variable as std::convert::From<std::io")

prop("C01",
     [guard.run, guard.run_mustcall, misc.run_fnexit, misc.run_looptype, misc.run_slicetype, misc.run_celltype, queryguard.run, round11.run_queryimpl, fold.run, scope.run, round3.run_meetuse, round4.run_meetoperand, round3.run_assigntyping, round3.run_cellmember, lock.run_global, lock.run, round4.run_fnlocal, variance.run, round10.run_retkind, round11.run_parsescope, round11.run_matchdir, round11.run_unionall, round11.run_seedfold],
     "R-QUERYIMPL: the admissibility predicate of `+` `@` `\\` `$]` implies every Type query the result type unwraps (symbolic boolean paths). R-PARSESCOPE: a top-level statement is folded against the scope as it was before it. R-MEETOPERAND: conjoin answers with no constant but `!`. R-LOCK (a cell read without its lock, or through a second lock, lets a checked value change under the reader). R-VARIANCE: every assignability test of the checker goes through Type::matches, whose direction clauses and mandatory conjuncts are part of soundness. R-FNLOCAL: the scope entry of a function literal carries its result type. Also R-GLOBAL: no cache of parse results outlives the scope they were checked against. Also: Type::conjoin (a mere lower bound) is used only for parameter types (R-MEETUSE); `X=` is typed with the typing functions of X (R-ASSIGNTYPING). Decides the structural half of type soundness: all 43 static checks the soundness argument leans on exist, are tested "
     "before every success value of their creation function and cannot be bypassed (R-GUARD, R-MUSTCALL); falling off a function "
     "body yields () and MissingReturn stands in front of that for non-() functions (R-FNEXIT); the Type queries that compute "
     "result types treat all union members alike (R-FOLD); no operator runs a callee in the caller's scope (R-SCOPE). It does NOT "
     "decide that each return_type agrees with its exec (value-level; known counter-examples D7, D11 in DESIGN.md).",
     "must-pass-through / dominance of guard tests on MIR CFG, who-constructs tables, sibling agreement of union folds",
     "guard conditions are taken as written (a weakened but present condition is not detected)")

prop("C02",
     [partial(panic.run, name="R-PANIC"), errflow.run, stop.run, scope.run, orpat.run, lock.run, guard.run_execerror, variant.run, guard.run_mustcall, misc.run_looptype, layer.run, round3.run_assigntyping, round6.run_unarycall, round6.run_whobinds, cast.run, round11.run_selfname, round11.run_parsescope, round11.run_matchdir, round11.run_unionall],
     "R-MATCHDIR: no admissibility test asks `<constant type>.matches(<operand type>)`. R-UNIONALL. R-SELFNAME / R-PARSESCOPE: a running declaration never overwrites a parameter with the function's own name; Code::parse folds a statement against a copy of the scope taken before the statement was created. R-CAST (an int converted to a length / index without a sign test in front of it: a negative constant becomes a huge allocation and a capacity panic). R-UNARYCALL / R-WHOBINDS: a callee's body never runs in the caller's scope, names are bound only by declaring constructs. Also R-ASSIGNTYPING (a compound assignment admitting operands its operator does not type ends in a failed downcast). Decides: the complete inventory of panic-capable sites (383 today) is matched per function and signature to a reviewed "
     "justification naming the check that discharges it (R-PANIC); no error or control signal is dropped (R-ERRFLOW); ExecStop is "
     "raised and caught only where the control-flow table says, with the documented routing (R-STOP); no callee declares into the "
     "caller's scope (R-SCOPE); no universal check is written as an overlapping or-pattern (R-ORPAT); nothing can panic while a "
     "cell's lock is held other than reviewed kernel defaults (R-LOCK); each of the six run-time errors is raised only by the "
     "reviewed functions (R-GUARD-X). Does NOT decide that the downcast / type-query / kernel-default sites are unreachable: that "
     "is C01's value-level half.",
     "panic-site inventory as per-function multiset vs reviewed table; error-flow def-use; who-raises / who-catches tables",
     "a frozen table turns every NEW panic-capable site into an alarm by design")

prop("C03",
     [pairflowrule.run, tables.run_dispatch, tables.run_precedence, partial(panic.run, name="R-PANIC"), guard.run_mustcall, queryguard.run, round11.run_queryimpl, fold.run, errflow.run, parsepure.run, variant.run, round3.run_childkeep, round10.run_retkind, round11.run_seedfold],
     "R-SEEDFOLD: Type::min_tuple_len (the bound behind `t.N`) keeps the smaller length. R-QUERYIMPL: on every path on which an operator's admissibility predicate answers true, each Type query its result type unwraps was seen to be Some (operands not swapped). R-RETKIND (an operator typed with a constant type whose kernel can build another kind: the folded value fails a downcast while parsing). R-CHILDKEEP (a statement or declaration filtered out of a module / block while it is created is still referred to by what stays: the folding pass then looks up a name that was never declared). Decides: every alternative the grammar can hand to a pair-walking function has an arm there (R-TABLES-D: primary, line/stm/"
     "body, type, match_arm, int, var_from_str) and every operator rule is registered in the Pratt parser (R-TABLES); every "
     "panic-capable site on the parse path is a reviewed row (R-PANIC); Type queries are guarded by their admissibility test "
     "(R-MUSTCALL) and treat union members alike (R-FOLD); folding failures are propagated as errors, never unwrapped (R-ERRFLOW); "
     "parsing never executes instructions (R-PARSEPURE). R-PAIRFLOW: an abstract interpretation of all 64 Pair-walking "
     "functions against the grammar's child-sequence automata (trace-partitioned per child label) shows that no unwrap of a child "
     "pair can see None and no rule reaches a panicking default arm, for every child sequence the grammar generates; R-VARIANT: "
     "wildcard arms over operator enums are dead.",
     "abstract interpretation of MIR pair walkers vs grammar child automata; grammar <-> dispatch-arm agreement; panic inventory",
     "stack / memory exhaustion excluded by the property")

prop("C04",
     [parsepure.run, kernel.run, guard.run_execerror, misc.run_retain, folddrop.run,
      partial(panic.run, scope=FOLD_SCOPE, name="R-PANIC"), cast.run, round3.run_childkeep, round3.run_iterfold, layer.run, round4.run_declvalues, round6.run_arrayconst, round6.run_rekind],
     "R-ARRAYCONST (folded array constants are typed by their values), R-REKIND (a fold rebuilds the construct itself). R-DECLVALUES. Also R-LAYER: the folder replaces run-time lookups by the declaration lexical scoping designates, so run-time scopes must follow it. Also: no collection of children is filtered while creating / folding (R-CHILDKEEP); folding never creates or pulls an iterator (R-ITERFOLD). Decides: folding cannot have effects, create cells or run user code (R-PARSEPURE: no path from parse / create / recreate to "
     "Exec::exec; cells built only by Mut::exec / of_type); the fold route and the run route of every operator end in the same "
     "kernel function (R-KERNEL, 62 rows); the early-error arms of the fold path raise only the variant the kernel raises "
     "(R-GUARD-X); only constant statements are dropped (R-RETAIN). Does NOT decide equality of results of twin programs.",
     "call-graph reachability with cut edges, kernel-reuse table over MIR switch arms",
     "kernel reuse is a sufficient mechanism, not a necessary one; And/Or folds are re-implementations (reviewed)")

prop("C05",
     [hashorder.run_hash, hashorder.run_order, hashorder.run_nondet, fold.run, lock.run_global, round4.run_instrstate, round4.run_concat, round6.run_noabsorb, round10.run_renderkey, round11.run_seedfold],
     "R-SEEDFOLD: the combiner of a fold seeded with the first member in hash order captures nothing from that member. R-RENDERKEY: the text of a value is never used as a key or compared. R-NOABSORB. R-CONCAT (absorption by subtyping makes the member set depend on arrival order). Also R-GLOBAL / R-INSTRSTATE: nothing is left behind by an earlier parse or run. Decides: no Hash impl of a crate type observes hash iteration order (R-HASH); every iteration over a HashMap / HashSet / "
     "MultiType ends in an order-insensitive consumer, a commutative fold, a display-only context or a reviewed row "
     "(R-HASHORDER, def-use from each iteration start to its terminal consumers); no clock / env / thread / RandomState call "
     "outside stdlib::{fs,io} (R-NONDET); union folds query all members alike (R-FOLD).",
     "iterator def-use tracing to terminal consumers, Hash-impl reachability, forbidden-call scan",
     "commutativity of Type::concat / conjoin is a reviewed reason, not proved")

prop("C06",
     [scope.run, layer.run, round4.run_declvalues, guard.run_mustcall, round6.run_unarycall, round6.run_whobinds, errflow.run, round11.run_identorder, round11.run_selfname, round11.run_parsescope],
     "R-IDENTORDER: an identifier is looked up in the enclosing interpreter only when the scopes of the program being parsed do not know it. R-SELFNAME, R-PARSESCOPE (D27, D28). R-ERRFLOW (an error raised while a layer is built or a callee runs is never dropped, so a scope is never left half-built). R-UNARYCALL, R-WHOBINDS. R-MUSTCALL rows: a declared function (re)binds its own name on every path of its creation and folding. R-DECLVALUES: a declaration of several names does not see the names it declares. Decides: Function::exec (runs a body in the given scope) is called only from exec_with_args (fresh interpreter holding self + "
     "params) and the host-call harness (R-SCOPE); each scoping construct creates its layer at check, fold and run time and runs "
     "its inside against the new layer; capture = recreate against the creating interpreter; modules are built from exactly the "
     "dropped layer; lower_layer is a shared reference and insert touches only the own map (R-LAYER, 26 obligations). Does NOT "
     "decide substitution = snapshot semantics for every nesting.",
     "who-may-call, scope pairing with def-use of the layer local and liveness", "")

prop("C07",
     [evalorder.run, folddrop.run, round3.run_childkeep, round6.run_strict, round10.run_operandorder],
     "R-OPERANDORDER: create_infix (and the Pratt callback) hand the left operand on before the right one. R-STRICT: strict constructs evaluate every operand on every successful path. Also R-CHILDKEEP: arms / candidates / elements are never filtered out of the instruction tree. Decides for the 11 Exec bodies that order operands: order by must-precede on the CFG, at most once per path, short-circuit by "
     "control dependence, branch exclusivity by mutual unreachability, sequences by absence of reordering adaptors. Order inside "
     "slice::Iter / zip / collect is trusted.",
     "dominance / reachability on MIR CFG keyed by receiver field of each exec call", "")

prop("C08",
     [partial(panic.run, scope=KERNEL_SCOPE, name="R-PANIC"), cast.run, guard.run_execerror, kernel.run, tables.run_precedence, round10.run_prims, round10.run_retkind],
     "R-PRIMS: each numeric kernel applies exactly its reviewed primitives (wrapping_* on ints, IEEE operators on floats, signed comparisons). Decides: integer kernels contain no checked raw arithmetic (a `+` instead of wrapping_add appears as a new Assert(Overflow) "
     "site) and no unreviewed panic site (R-PANIC over bin_op / prefix_op); no value-changing cast of an operand (R-CAST, sign-test "
     "guards re-verified by dominance); each documented error arm exists and only there (R-GUARD-X); run, fold and compound "
     "assignment share one kernel per operator (R-KERNEL); operator <-> token <-> rule agreement (R-TABLES). std's wrapping_* / "
     "f64 semantics are trusted; numeric results are not decided.",
     "assert-terminator inventory, cast table with dominance-verified guards, kernel table", "")

prop("C09",
     [misc.run_units, misc.run_slicetype, partial(panic.run, scope=INDEX_SCOPE, name="R-PANIC"), orpat.run, cast.run,
      partial(guard.run, only_variants=("CannotIndexWith", "CannotIndexInto", "CannotSlice")), round11.run_pairfield, round11.run_slicemin],
     "R-PAIRFIELD: every slice bound is built from the pair whose grammar rule names that bound (rule sets per call site from the R-PAIRFLOW interpretation). Decides: unit agreement (at::exec, Slicing::exec and std.len count chars, none measures bytes; negative indices are "
     "normalised with the same len), no unchecked index in at::exec, both bounds directions raise IndexOutOfBounds, all three "
     "slice bounds are type-checked (R-ORPAT, R-GUARD), index casts are exact (R-CAST). Does NOT decide the index arithmetic or "
     "slyce's selection.",
     "forbidden-callee scan, panic inventory, cast guards", "")

prop("C10",
     [variance.run, round3.run_meetuse, round4.run_meetcell, round4.run_meetoperand, round4.run_concat, fold.run, round6.run_noabsorb, round6.run_whounion, round11.run_ziplen],
     "R-ZIPLEN: wherever matches / conjoin pair the parts of their two operands with zip, the lengths of exactly those two sequences are compared. R-MEETOPERAND: the meet of two function types combines results with results and parameters with parameters of both operands. R-WHOUNION: unions are built by Type::concat only. R-FOLD: every Type query answers for a union member-wise (or delegates to exactly one other query); R-NOABSORB. R-CONCAT: the union of two types never drops a member by a `matches` test. R-MEETCELL: the meet never looks inside two cell types. Decides the direction clauses of the subtype relation on a provenance analysis of Type::matches, FunctionType::matches, "
     "StructType::matches and their closures (every value labelled with the operand - left S or right O -, field and variant "
     "payload it comes from; closures inherit the labels of what they capture and of the iterator they are handed to): arrays, "
     "tuples, struct fields, union members and function results are compared (part of S, part of O); function parameters (O, S); "
     "no `matches` on the payload of `mut` (cells fall to ==); the members of a left union are combined with all, of a right "
     "union with any, tuples pairwise with all and equal length, parameter counts compared; the fields of O are looked up in S; "
     "the arms for S = `!` and O = `any` answer true without consulting anything; Type::conjoin (the meet) is used only for "
     "parameter types (R-MEETUSE). Does NOT decide reflexivity, transitivity, that conjoin is a lower bound, nor value soundness: "
     "those quantify over all types.",
     "provenance dataflow over MIR incl. closure capture and iterator items",
     "a comparison written through a helper the labels cannot follow is reported as undecidable")

prop("C11",
     [iterops.run_src, iterops.run_loop, iterops.run_pick, forshape.run, partial(panic.run, scope=ITER_SCOPE, name="R-PANIC"), round3.run_iterfold, round4.run_instrstate, parsepure.run, round11.run_matchdir],
     "R-MATCHDIR (the run-time pick of the int / float / string fold tests the iterator's type against the literal, not the reverse). R-PARSEPURE: no iterator is built while parsing (it would be shared by every evaluation). R-INSTRSTATE: no interior-mutable field in parsed code (a cached fragment / iterator would be shared by all evaluations). Also R-ITERFOLD: no iterator is created, pulled or reduced at fold time. Decides, on the code that implements the iterator operators (13 SimpleSL fragments embedded in the Rust sources, parsed "
     "with the repository's grammar and analysed path by path; 3 Rust pull loops on the MIR CFG): every iteration pulls its "
     "source at most once and never after the end marker; f / p run only on delivered elements, once each, never on the end "
     "marker's payload; no element is dropped unexamined; map / filter / `? T` / `~` do nothing until their result is pulled; "
     "map returns (true, f(x)), filter and `? T` return x exactly when the test held; $&& / $|| stop at the first deciding "
     "element and yield true / false on exhaustion; $+ $* $& $| fold with the documented identity and operator in "
     "(accumulator, element) order; `$ init f` threads the accumulator left to right; `$]` appends each element once; `\\` "
     "sends an element left exactly when p yields true and returns (with, without); `~` advances its cursor once per element "
     "from index 0 with the bound tested first; type-guarded dispatchers pick the fragment declared for the tested type. Does "
     "NOT decide that the computed values equal the sequence definition for all inputs. `for` is decided on the tree of aggregates "
     "its creator returns (R-FORSHAPE): Block[$iter := e, loop Block[($con, x) := $iter(), if $con body else break]].",
     "symbolic path enumeration over the AST of embedded SimpleSL fragments; CFG path rules on MIR; dispatch recovery",
     "the fragments are read from the string constants passed to Code::parse; a fragment built at run time from non-constant "
     "text other than a format! template is reported as undecidable")

prop("C12",
     [stop.run, evalorder.run,
      partial(guard.run, only_variants=("BreakOutsideLoop", "ContinueOutsideLoop", "ReturnOutsideFunction", "WrongReturn",
                                        "MatchNotCovered", "WrongCondition", "MissingReturn")),
      partial(tables.run_dispatch, only=("match_arm", "stm", "line", "body")), pairflowrule.run, guard.run_mustcall, misc.run_looptype, round3.run_meetuse, round3.run_childkeep, round3.run_valuearm, forshape.run, round6.run_rekind, round11.run_unionall],
     "R-UNIONALL: checks that walk the members of a union scrutinee / operand quantify with `all`. R-REKIND: folding a loop yields a loop (its catch site for break / continue stays). Also: arms are never dropped from a match (R-CHILDKEEP), not pruned by the non-exact Type::conjoin (R-MEETUSE); a value arm is decided by == alone (R-VALUEARM). Decides: a single catch site per signal (Loop::exec for Break/Continue, Function::exec for Return) with the documented "
     "routing, sugared loops emit Break inside a Loop, in_loop set/restored/reset (R-STOP); placement and exhaustiveness guards "
     "exist and dominate success (R-GUARD); arm loop returns at the first cover, branches are exclusive (R-EVALORDER); all three "
     "match-arm forms and all statements have a handler (R-TABLES-D). Does NOT decide which arm a given value selects.",
     "who-constructs / who-matches on ExecStop, CFG routing checks", "")

prop("C13",
     [parsepure.run, misc.run_celltype, partial(witness.run, only=("W3MutNotClone",)), lock.run, guard.run_mustcall,
      partial(guard.run, only_variants=("WrongInitialization", "CannotDo2")), fold.run, evalorder.run, round3.run_assigntyping, round3.run_cellmember, round11.run_unionall],
     "R-UNIONALL (assignment through a union of cells must fit every member cell). Also R-CELLMEMBER (a union of cell types is admitted member by member) and R-ASSIGNTYPING: the result type that must fit the cell is computed by the operator's own typing function. Decides: a cell is built only by executing `mut` (or as a type default), never while parsing/folding (R-PARSEPURE); Mut is "
     "not Clone, Variable::Mut holds Arc<Mut> (witness); assign::can_be_used asks mut_element_type and Type::matches, "
     "WrongInitialization guards creation (R-MUSTCALL, R-GUARD); update = read, kernel, store under one write guard, store after "
     "success in try_exec (R-LOCK); value read after the right operand (R-EVALORDER). Does NOT decide the values stored.",
     "who-constructs, compile_fail witness, lock live-region analysis", "")

prop("C14",
     [tables.run_precedence, round3.run_prattonly],
     "Also R-PRATTONLY: prefix / postfix / infix operations are built only inside the closures given to PRATT_PARSER. Decides the property for all expressions, given pest's Pratt parser: 52 operator rows are compared across the docs table, "
     "the PRATT_PARSER levels (recovered from MIR), the grammar's operator choices, the Rule->BinOperator map with Display tokens "
     "and the dispatch arms; ~900 ordered literal pairs are checked for PEG shadowing. Nothing is executed.",
     "static table agreement: docs / Pratt table (MIR) / pest grammar / operator enum / dispatch arms + PEG literal shadowing",
     "docs/operators.md is the documented table; four operators it omits are placed as the property statement says")

prop("C15",
     [typeprint.run, round4.run_structprint, round6.run_noabsorb, round6.run_whounion, typeprint.run_typetext, hashorder.run_hash],
     "R-HASH: the re-parsed type is compared with the printed one through Eq, and a union compares its members as a HashSet: a Hash impl of a type that observes hash iteration order makes equal types unequal. R-TYPETEXT: outside the type printers no message template continues a printed type's syntax (`mut {T}`, `->{T}`, `{T}|`). R-WHOUNION: only Type::concat builds a union value, so no union that the parser cannot produce (holding any / ! / one member / a nested union) is ever printed. R-NOABSORB: reading a union back never absorbs members. R-STRUCTPRINT: the struct type printer never funnels fields through a keyed collection. Decides the structural half of the print / re-parse round trip of types: the printing code (Display of Type, FunctionType, "
     "MultiType, read from the MIR as templates + nested positions + the tests `is a union` / `is !` that pick an alternative) is "
     "instantiated with sample sub-types (plain, union, function, function returning a union, cell, array, tuple, (), any, !) in "
     "every nested position and every list length the grammar admits; each text is parsed with the repository's grammar and must "
     "be one type, of the rule Type::from(pair) maps to the printed variant, with every nested sample as one operand of its own "
     "rule (the parenthesisation clause: unions in function results and cell contents). Does NOT decide the round trip for all "
     "types (value level), struct types (identifiers), nor the order of union members.",
     "printer model recovered from MIR format templates; PEG parse of instantiated skeletons with the repository grammar",
     "samples are finite: one representative per kind of nested type")

prop("C16",
     [partial(witness.run, only=("W1SendSync",)), orpat.run_unsafe, lock.run, lock.run_global, parsepure.run, round4.run_instrstate],
     "Also R-INSTRSTATE. Decides: Code, Variable, Function, Type, Mut, Interpreter<'static> are Send + Sync (compile-pass witness with a failing twin); "
     "no user-written unsafe in any workspace crate (HIR scan), so data-race freedom is rustc's guarantee; every static is "
     "immutable after initialisation (R-GLOBAL); compound assignment is one write-guard region (=> N increments add N), no lock is "
     "acquired and the interpreter is not re-entered while a guard is live (=> no lock-order cycle) (R-LOCK).",
     "compile-pass/compile_fail witnesses, HIR unsafe scan, lock live-region + transitive-callee analysis",
     "std::sync::RwLock semantics trusted")

prop("C17",
     [partial(witness.run, only=("W2CodeStatic", "W4ExecIsolated")), parsepure.run, misc.run_direction,
      partial(guard.run, only_variants=("WrongNumberOfArguments", "WrongArgument")), guard.run_mustcall, round4.run_instrstate, lock.run_global, layer.run, round4.run_declvalues, round6.run_whobinds, round8.run_shellapi, round11.run_identorder, round11.run_parsescope],
     "R-IDENTORDER (REPL route: locals shadow values left in the interpreter), R-PARSESCOPE. R-SHELLAPI: the shell hands its interpreter only to with_stdlib / Code::parse / Code::exec_unscoped. R-WHOBINDS: executing a program adds no name of its own to the interpreter. R-DECLVALUES. Also: parsed code holds no interior-mutable state (R-INSTRSTATE), there is no global mutable state (R-GLOBAL), and the run-time scope discipline the REPL / batch equivalence relies on (R-LAYER). Decides: isolation by type (Code: 'static; Code::exec(&self) builds its own interpreter; parse takes &Interpreter); "
     "repeatability's structural half (no execution at parse time, cells only from Mut::exec); host calls re-check arity and each "
     "argument in the same direction as in-language calls and create_call goes through create_from_variables. Does NOT decide "
     "REPL = batch (a relation over histories).",
     "compile_fail witnesses, def-use on the operands of Type::matches, must-call", "")

prop("C18",
     [export.run, export.run_error_struct, partial(panic.run, scope=STDLIB_SCOPE, name="R-PANIC"), cast.run, variant.run, round4.run_stddelegate, export.run_ret, round8.run_dropwrite, round10.run_ioerr],
     "R-DROPWRITE: a buffered writer is flushed before every success value (an error in Drop is lost: the call would report () for a failed write). R-EXPORT-RET: the derived result type of an export is the TypeOf of the Rust type whose value is converted (io::Result keeps its error struct). R-STDDELEGATE: helpers named after a std method answer through that method on every path. Decides for all 77 exports: declared parameter names = names the generated closure imports, in order; TypeOf type of each "
     "undecorated parameter = its TryInto target; TypeOf kind = kind tested by TryFrom<&Variable> (8 rows); error-struct keys "
     "agree; every panic-capable site under stdlib is a reviewed row (fs / io bodies have none); stdlib casts are listed with "
     "their documented semantics. Does NOT decide that helpers return what docs/stdlib.md says.",
     "MIR extraction of generated Function::new parameter lists vs generated closures", "")

prop("C19",
     [eqfield.run, round3.run_valuearm, round3.run_childkeep, round3.run_meetuse, round8.run_repeat, round10.run_infixop, round10.run_renderkey],
     "R-EQFIELD identity-shortcut clause: pointer identity decides equality only for functions and cells. R-INFIXOP: `==` / `!=` are built as the operator that was written, never rewritten into another one. R-RENDERKEY. R-REPEAT: `[v; n]` is built by Array::new_repeat = repeat_n(v, n) collected, when run and when folded (so it equals the literal with n copies, `[]` for n = 0). Also: value arms / candidates are never dropped (R-CHILDKEEP), nor pruned by the non-exact meet (R-MEETUSE). Also R-VALUEARM: value arms of match consult nothing but Variable::eq. Decides: Array equality reads `elements` only; Variable equality compares Function / Mut by Arc::ptr_eq and the rest through "
     "the payload's PartialEq; `ne` is not overridden; ==, != and match value arms call exactly that PartialEq. Symmetry / "
     "reflexivity as laws are not decided.",
     "field-projection and callee inspection of the PartialEq impls", "")

prop("C20",
     [partial(tables.run_dispatch, only=("var_from_str", "int")), misc.run_render, partial(panic.run, scope=scope_prefix("<variable::Variable as std::convert::TryFrom<pest", "<variable::Variable as std::str::FromStr"), name="R-PANIC"), cast.run, misc.run_escapes, round11.run_depthstep],
     "R-DEPTHSTEP: the rendering depth budget is spent one unit per container level and the cut-off is not below 5 levels. Decides the table clauses: every alternative of the value-literal grammar has a constructor arm in Variable::try_from(Pair); "
     "int literal forms are parsed with radix 2/8/10/16 matching their prefixes and overflow is an Err; arrays / tuples render "
     "elements through Variable::debug and debug uses {:?} for int / float / string. The print/parse round trip itself (escaping, "
     "float text, MIN_INT) is value-level and NOT decided.",
     "grammar <-> constructor-arm agreement, callee inspection of the rendering functions", "")


def run(pid, tier, seed):
    if pid not in PROPS:
        print("unknown or not-applicable property %s" % pid)
        return 2
    p = PROPS[pid]
    return engine.run_property(pid, p["rules"], tier, seed, p["explanation"], p["assumptions"], p["trusted"])
