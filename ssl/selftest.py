"""Thorough tier: checker self-test. Each seeded edit under mutants/ that is mapped to the property is applied to a scratch
copy of /repo (outside /repo and /verif, removed right after together with its output), facts are re-extracted and the
property's quick check must report the expected instance key. A miss is a defect of the CHECKER: it is printed loudly and
recorded in the evidence, it is never reported as a violation of the property."""
import os
import shutil
import subprocess
import tempfile

from . import extract

V = extract.VERIF


def rows():
    p = os.path.join(V, "mutants", "index.tsv")
    out = []
    if os.path.exists(p):
        for l in open(p):
            if l.strip() and not l.startswith("#"):
                f = l.rstrip("\n").split("\t")
                if len(f) >= 5:
                    out.append(dict(mutant=f[0], rule=f[1], key=f[2], props=f[3].split(), what=f[4]))
    return out


def make_copy(patch):
    d = tempfile.mkdtemp(prefix="ssl-selftest-")
    for part in extract.TREE_PARTS:
        s = os.path.join(extract.REPO, part)
        if os.path.isdir(s):
            shutil.copytree(s, os.path.join(d, part), ignore=shutil.ignore_patterns("target"))
        elif os.path.exists(s):
            shutil.copy2(s, os.path.join(d, part))
    r = subprocess.run(["patch", "-p1", "--no-backup-if-mismatch", "-s", "-i", patch], cwd=d, stdout=subprocess.PIPE, stderr=subprocess.STDOUT, text=True)
    if r.returncode != 0:
        shutil.rmtree(d, ignore_errors=True)
        return None, r.stdout
    return d, ""


def run(prop):
    """-> list of dict(mutant, fired, detail)"""
    if os.environ.get("SSL_NO_SELFTEST") or extract.REPO != "/repo" and os.environ.get("SSL_SELFTEST_NESTED"):
        return []
    results = []
    for r in rows():
        if prop not in r["props"]:
            continue
        patch = os.path.join(V, "mutants", r["mutant"])
        d, err = make_copy(patch)
        if d is None:
            # the patch no longer applies to the current tree (e.g. the tree itself was edited): not a miss, a skip
            results.append(dict(mutant=r["mutant"], fired=None, detail="patch does not apply to the current tree: skipped"))
            continue
        o = tempfile.mkdtemp(prefix="ssl-selftest-out-")
        try:
            env = dict(os.environ, SSL_REPO=d, SSL_OUT=o, SSL_SELFTEST_NESTED="1", VERIF_TIER="quick")
            c = subprocess.run([os.path.join(V, "check"), prop, "--tier", "quick"], env=env, stdout=subprocess.PIPE, stderr=subprocess.STDOUT, text=True)
            keys = [l.strip() for l in c.stdout.splitlines() if l.strip().startswith("key:")]
            hit = c.returncode == 1 and any(r["key"] in k for k in keys)
            compiled = "extraction failed" not in c.stdout
            results.append(dict(mutant=r["mutant"], fired=bool(hit), what=r["what"], expected=r["rule"] + " " + r["key"],
                                detail=("reported" if hit else ("mutant does not compile" if not compiled else "NOT reported; reported keys: %s" % keys[:3]))))
        finally:
            shutil.rmtree(d, ignore_errors=True)
            shutil.rmtree(o, ignore_errors=True)
    return results
