"""The pest grammar as data: silent-rule inlining, ordered alternatives, literals, child-sequence automata."""
from collections import defaultdict

BUILTIN = {"ANY", "SOI", "EOI", "NEWLINE", "ASCII_DIGIT", "ASCII_ALPHA", "ASCII_ALPHANUMERIC", "ASCII_BIN_DIGIT",
           "ASCII_OCT_DIGIT", "ASCII_HEX_DIGIT", "ASCII_NONZERO_DIGIT", "ASCII_ALPHA_LOWER", "ASCII_ALPHA_UPPER",
           "ASCII", "PEEK", "POP", "DROP", "PEEK_ALL", "POP_ALL"}
# EOI produces a token pair in pest when used outside a predicate; in this grammar it only occurs under `&`.


class Grammar:
    def __init__(self, raw):
        self.rules = {r["name"]: r for r in raw["rules"]}
        self.order = [r["name"] for r in raw["rules"]]
        self._children = {}

    def ty(self, name):
        return self.rules[name]["ty"]

    def is_silent(self, name):
        return self.rules[name]["ty"] == "silent"

    def produces_token(self, name):
        return name in self.rules and self.rules[name]["ty"] != "silent"

    # ---- ordered alternatives of a (silent or not) choice rule, silent sub-choices inlined
    def alternatives(self, name):
        """Flattened ordered list of the top-level alternatives of rule `name`; an alternative that is a bare
        reference to a silent rule is expanded recursively. Items: ('rule', name) or ('expr', expr)."""
        out = []

        def walk(e):
            if e["k"] == "choice":
                walk(e["a"])
                walk(e["b"])
            elif e["k"] == "ident" and e["s"] in self.rules and self.is_silent(e["s"]):
                walk(self.rules[e["s"]]["expr"])
            elif e["k"] == "ident":
                out.append(("rule", e["s"]))
            else:
                out.append(("expr", e))
        walk(self.rules[name]["expr"])
        return out

    def literal(self, name):
        """If rule `name` matches exactly one string literal, return it, else None."""
        e = self.rules[name]["expr"]
        if e["k"] == "str":
            return e["s"]
        return None

    def leading_literal(self, name):
        """First string literal every match of `name` must start with (None if not a plain literal start)."""
        e = self.rules[name]["expr"]
        while e["k"] == "seq":
            e = e["a"]
        if e["k"] == "str":
            return e["s"]
        return None

    # ---- child sequences: NFA over non-silent rule names for rule.into_inner()
    def children_nfa(self, name):
        """Returns (start, accepting:set, trans: dict state -> list[(label, state)]) epsilon-free, where labels are
        names of token-producing rules appearing as direct children of `name`."""
        if name in self._children:
            return self._children[name]
        ty = self.ty(name)
        # inside an atomic (@) rule no inner tokens are produced
        if ty == "atomic":
            nfa = (0, {0}, {0: []})
            self._children[name] = nfa
            return nfa
        st = {"n": 0}
        eps = defaultdict(set)
        tr = defaultdict(list)

        def new():
            st["n"] += 1
            return st["n"] - 1

        def build(e, depth):
            """returns (s, t)"""
            k = e["k"]
            s, t = new(), new()
            if k in ("str", "insens", "range", "peekslice", "skip"):
                eps[s].add(t)
            elif k == "ident":
                nm = e["s"]
                if nm in self.rules:
                    if self.is_silent(nm):
                        if depth > 40:
                            raise RecursionError("silent recursion in " + nm)
                        a, b = build(self.rules[nm]["expr"], depth + 1)
                        eps[s].add(a)
                        eps[b].add(t)
                    else:
                        tr[s].append((nm, t))
                elif nm == "EOI":
                    # EOI outside a predicate is a token-producing rule of pest (a trailing `EOI` pair)
                    tr[s].append(("EOI", t))
                else:
                    # other builtins produce no token
                    eps[s].add(t)
            elif k in ("pospred", "negpred"):
                eps[s].add(t)
            elif k == "seq":
                a1, b1 = build(e["a"], depth)
                a2, b2 = build(e["b"], depth)
                eps[s].add(a1)
                eps[b1].add(a2)
                eps[b2].add(t)
            elif k == "choice":
                a1, b1 = build(e["a"], depth)
                a2, b2 = build(e["b"], depth)
                eps[s].update((a1, a2))
                eps[b1].add(t)
                eps[b2].add(t)
            elif k == "opt":
                a, b = build(e["e"], depth)
                eps[s].update((a, t))
                eps[b].add(t)
            elif k == "rep":
                a, b = build(e["e"], depth)
                eps[s].update((a, t))
                eps[b].update((a, t))
            elif k == "rep1":
                a, b = build(e["e"], depth)
                eps[s].add(a)
                eps[b].update((a, t))
            elif k == "repn":
                # over-approximate: min copies then star (max ignored unless == min)
                cur = s
                for _ in range(e["min"]):
                    a, b = build(e["e"], depth)
                    eps[cur].add(a)
                    cur = b
                if e["max"] != e["min"]:
                    a, b = build(e["e"], depth)
                    eps[cur].update((a, t))
                    eps[b].update((a, t))
                else:
                    eps[cur].add(t)
            elif k == "push":
                a, b = build(e["e"], depth)
                eps[s].add(a)
                eps[b].add(t)
            else:
                raise ValueError("unknown expr kind " + k)
            return s, t

        s0, t0 = build(self.rules[name]["expr"], 0)

        def closure(x):
            seen = {x}
            stack = [x]
            while stack:
                u = stack.pop()
                for v in eps[u]:
                    if v not in seen:
                        seen.add(v)
                        stack.append(v)
            return seen
        # epsilon-free NFA over closure-sets: determinise lazily (subset construction), small grammars
        start = frozenset(closure(s0))
        ids = {start: 0}
        trans = {}
        acc = set()
        work = [start]
        while work:
            S = work.pop()
            i = ids[S]
            if t0 in S:
                acc.add(i)
            out = defaultdict(set)
            for u in S:
                for lab, v in tr[u]:
                    out[lab].update(closure(v))
            trans[i] = []
            for lab, T in sorted(out.items()):
                T = frozenset(T)
                if T not in ids:
                    ids[T] = len(ids)
                    work.append(T)
                trans[i].append((lab, ids[T]))
        nfa = (0, acc, trans)   # deterministic by construction
        self._children[name] = nfa
        return nfa

    def child_labels(self, name):
        _, _, trans = self.children_nfa(name)
        return sorted({lab for outs in trans.values() for lab, _ in outs})

    def first_children(self, name):
        s, acc, trans = self.children_nfa(name)
        return sorted({lab for lab, _ in trans[s]}), (s in acc)

    def min_children(self, name):
        s, acc, trans = self.children_nfa(name)
        dist = {s: 0}
        q = [s]
        while q:
            u = q.pop(0)
            if u in acc:
                return dist[u]
            for _, v in trans[u]:
                if v not in dist:
                    dist[v] = dist[u] + 1
                    q.append(v)
        return None

    def sequences(self, name, max_len=8, limit=2000):
        """Enumerate child label sequences up to max_len (for evidence samples / small exhaustive checks)."""
        s, acc, trans = self.children_nfa(name)
        out = []
        stack = [(s, ())]
        while stack and len(out) < limit:
            u, seq = stack.pop()
            if u in acc:
                out.append(seq)
            if len(seq) < max_len:
                for lab, v in trans[u]:
                    stack.append((v, seq + (lab,)))
        return out


# ---- a small PEG evaluator over the grammar data (used on atomic rules only: no implicit whitespace handling)
_BUILTIN_CLASS = {
    "ANY": lambda c: True,
    "ASCII_DIGIT": lambda c: c.isdigit() and c.isascii(),
    "ASCII_ALPHA": lambda c: c.isalpha() and c.isascii(),
    "ASCII_ALPHANUMERIC": lambda c: c.isalnum() and c.isascii(),
    "ASCII_BIN_DIGIT": lambda c: c in "01",
    "ASCII_OCT_DIGIT": lambda c: c in "01234567",
    "ASCII_HEX_DIGIT": lambda c: c in "0123456789abcdefABCDEF",
    "NEWLINE": lambda c: c in "\n\r",
}


def peg_match(g, rule, text):
    """Does atomic rule `rule` of Grammar g match the whole of `text`? (PEG semantics: ordered choice, greedy repetition)"""
    def m(e, i, depth=0):
        if depth > 200:
            return None
        k = e["k"]
        if k == "str":
            return i + len(e["s"]) if text.startswith(e["s"], i) else None
        if k == "insens":
            return i + len(e["s"]) if text[i:i + len(e["s"])].lower() == e["s"].lower() else None
        if k == "range":
            return i + 1 if i < len(text) and e["a"] <= text[i] <= e["b"] else None
        if k == "ident":
            n = e["s"]
            if n in g.rules:
                return m(g.rules[n]["expr"], i, depth + 1)
            if n == "EOI":
                return i if i == len(text) else None
            if n == "SOI":
                return i if i == 0 else None
            f = _BUILTIN_CLASS.get(n)
            if f is None:
                return None
            return i + 1 if i < len(text) and f(text[i]) else None
        if k == "seq":
            j = m(e["a"], i, depth + 1)
            return None if j is None else m(e["b"], j, depth + 1)
        if k == "choice":
            j = m(e["a"], i, depth + 1)
            return j if j is not None else m(e["b"], i, depth + 1)
        if k == "opt":
            j = m(e["e"], i, depth + 1)
            return i if j is None else j
        if k in ("rep", "rep1"):
            n = 0
            while True:
                j = m(e["e"], i, depth + 1)
                if j is None or j == i:
                    break
                i = j
                n += 1
            return i if (k == "rep" or n >= 1) else None
        if k == "repn":
            n = 0
            while e["max"] < 0 or n < e["max"]:
                j = m(e["e"], i, depth + 1)
                if j is None or j == i:
                    break
                i = j
                n += 1
            return i if n >= e["min"] else None
        if k == "pospred":
            return i if m(e["e"], i, depth + 1) is not None else None
        if k == "negpred":
            return i if m(e["e"], i, depth + 1) is None else None
        if k == "push":
            return m(e["e"], i, depth + 1)
        return None
    return m(g.rules[rule]["expr"], 0) == len(text)
