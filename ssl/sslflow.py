"""Path enumeration over the SimpleSL AST (ssl/sslast.py) with symbolic values: which calls happen, how often and under
which branch conditions, per loop iteration. No SimpleSL code is run and no values are computed: a value is a term
(parameter, result of the k-th call, component of a tuple, negation ...), a branch forks the path with an assumption.

Terms (hashable tuples):
  ('const', ty, text) ('param', name) ('free', name) ('pull', id, src) ('apply', id, fn, args) ('ext', id)
  ('proj', v, i) ('tuple', items) ('not', v) ('bin', op, l, r) ('closure', key) ('cell', id) ('deref', cell, version)
  ('typetest', v, type) ('unk', id)
Events: ('pull', id, src, at) ('apply', id, fn, args, at) ('head', loop) ('back', loop) ('break', loop)
        ('assume', term, truth) ('write', cell, op, value, at) ('ext', id, callee, args, at)"""
import itertools

ASSIGN_OPS = {"assign", "assign_add", "assign_subtract", "assing_multiply", "assign_divide", "assign_modulo", "assign_lshift",
              "assign_rshift", "assign_bitwise_and", "assign_bitwise_or", "assign_xor", "assign_pow"}


class FlowError(Exception):
    pass


class Path:
    __slots__ = ("env", "events", "conds", "versions")

    def __init__(self, env=None, events=None, conds=None, versions=None):
        self.env = dict(env or {})
        self.events = list(events or [])
        self.conds = dict(conds or {})
        self.versions = dict(versions or {})

    def fork(self):
        return Path(self.env, self.events, self.conds, self.versions)

    # ---- assumptions
    def known(self, term):
        """True / False / None"""
        neg = False
        while term[0] == "not":
            term = term[1]
            neg = not neg
        if term[0] == "const" and term[1] in ("true", "false"):
            v = term[1] == "true"
        else:
            v = self.conds.get(term)
        if v is None:
            return None
        return (not v) if neg else v

    def assume(self, term, truth):
        neg = False
        while term[0] == "not":
            term = term[1]
            neg = not neg
        t = (not truth) if neg else truth
        self.conds[term] = t
        self.events.append(("assume", term, t))


def proj(v, i):
    if v[0] == "tuple" and i < len(v[1]):
        return v[1][i]
    return ("proj", v, i)


class Flow:
    def __init__(self, max_paths=4000):
        self.ids = itertools.count(1)
        self.closures = {}          # key -> (node, env at creation)
        self.max_paths = max_paths

    def fresh(self, kind="unk"):
        return (kind, next(self.ids))

    # ================= functions
    def function(self, node, env, source_names=(), callback_names=()):
        """all paths through the body of function literal `node`: returns (complete, loopbacks) where complete is a
        list of (path, returned term) and loopbacks a list of paths that end at a back edge"""
        self.loopbacks = []
        p = Path(env)
        for name, ty in node["params"]:
            p.env[name] = ("param", name)
        done = []
        for q, fl in self.block(node["body"], p):
            if fl[0] == "return":
                done.append((q, fl[1]))
            elif fl[0] == "next":
                done.append((q, ("const", "void", "()")))
            else:
                raise FlowError("break / continue outside a loop")
        return done, self.loopbacks

    def block(self, lines, p):
        cur = [(p, ("next", ("const", "void", "()")))]
        for ln in lines:
            nxt = []
            for q, fl in cur:
                if fl[0] != "next":
                    nxt.append((q, fl))
                    continue
                nxt.extend(self.stmt(ln, q))
            cur = nxt
            if len(cur) > self.max_paths:
                raise FlowError("too many paths")
        return cur

    # ================= statements (each returns [(path, flow)])
    def stmt(self, n, p):
        k = n["k"]
        if k == "return":
            if n["e"] is None:
                return [(p, ("return", ("const", "void", "()")))]
            out = []
            for q, fl in self.stmt(n["e"], p):
                out.append((q, ("return", fl[1]) if fl[0] == "next" else fl))
            return out
        if k == "set":
            out = []
            for q, fl in self.stmt(n["e"], p):
                if fl[0] == "next":
                    q.env[n["name"]] = fl[1]
                out.append((q, fl))
            return out
        if k == "destruct":
            out = []
            for q, fl in self.stmt(n["e"], p):
                if fl[0] == "next":
                    for i, nm in enumerate(n["names"]):
                        q.env[nm] = proj(fl[1], i)
                out.append((q, fl))
            return out
        if k == "block":
            # a block runs in its own layer: `:=` inside it declares a new binding that ends with the block and never
            # changes a binding of the enclosing scope (there is no re-assignment of plain names in SimpleSL)
            saved = dict(p.env)
            out = []
            for q, fl in self.block(n["lines"], p):
                for nm in list(q.env):
                    if nm not in saved:
                        del q.env[nm]
                    else:
                        q.env[nm] = saved[nm]
                out.append((q, fl))
            return out
        if k == "if":
            out = []
            for q, c in self.cond(n["cond"], p):
                if c:
                    out.extend(self.stmt(n["then"], q))
                elif n["else"] is not None:
                    out.extend(self.stmt(n["else"], q))
                else:
                    out.append((q, ("next", ("const", "void", "()"))))
            return out
        if k == "ifset":
            out = []
            for q, v in self.expr(n["e"], p):
                t = ("typetest", v, n["type"])
                for q2, c in self.branch(t, q):
                    if c:
                        had = q2.env.get(n["name"])
                        q2.env[n["name"]] = v
                        for q3, fl in self.stmt(n["then"], q2):
                            if had is None:
                                q3.env.pop(n["name"], None)
                            else:
                                q3.env[n["name"]] = had
                            out.append((q3, fl))
                    elif n["else"] is not None:
                        out.extend(self.stmt(n["else"], q2))
                    else:
                        out.append((q2, ("next", ("const", "void", "()"))))
            return out
        if k == "match":
            out = []
            for q, v in self.expr(n["e"], p):
                live = [q]
                for idx, arm in enumerate(n["arms"]):
                    nxt_live = []
                    for q1 in live:
                        if arm["k"] == "value":
                            states = [q1]
                            for cand in arm["values"]:
                                new_states = []
                                for s in states:
                                    for s2, cv in self.expr(cand, s):
                                        for s3, c in self.branch(("bin", "equal", v, cv), s2):
                                            if c:
                                                out.extend(self.stmt(arm["body"], s3))
                                            else:
                                                new_states.append(s3)
                                states = new_states
                            nxt_live.extend(states)
                        elif arm["k"] == "type":
                            for s3, c in self.branch(("typetest", v, arm["type"]), q1):
                                if c:
                                    s3.env[arm["name"]] = v
                                    out.extend(self.stmt(arm["body"], s3))
                                else:
                                    nxt_live.append(s3)
                        else:
                            out.extend(self.stmt(arm["body"], q1))
                    live = nxt_live
                # an accepted match is exhaustive: paths left in `live` are infeasible
            return out
        if k in ("loop", "while", "whileset", "for"):
            return self.loop(n, p)
        if k == "break":
            return [(p, ("break",))]
        if k == "continue":
            return [(p, ("continue",))]
        if k == "import":
            raise FlowError("import inside an analysed fragment")
        # expression statement
        return [(q, ("next", v)) for q, v in self.expr(n, p)]

    def loop(self, n, p):
        """one symbolic iteration from the loop head (values declared before the loop cannot change inside it: `:=` in
        the body declares block-local names; cells are read through versioned derefs)"""
        return self._loop_once(n, p, {})

    def _loop_once(self, n, p, carried):
        lid = n["at"]
        out = []
        starts = [p]
        if n["k"] == "for":
            starts = [q for q, _ in self.expr(n["e"], p)]
        for p0 in starts:
            h = p0.fork()
            h.events.append(("head", lid))
            synth = {}
            for nm in assigned_names(n):
                if nm in carried:
                    src, path = carried[nm]
                    if src not in synth:
                        synth[src] = ("pull", next(self.ids), src)
                        h.events.append(("carried", synth[src][1], src))
                    v = synth[src]
                    for i in path:
                        v = proj(v, i)
                    h.env[nm] = v
                elif nm in h.env and h.env[nm][0] != "cell":
                    h.env[nm] = self.fresh()
            entries = []
            if n["k"] == "loop":
                entries = [h]
            elif n["k"] == "while":
                for q, c in self.cond(n["cond"], h):
                    if c:
                        entries.append(q)
                    else:
                        out.append((q, ("next", ("const", "void", "()"))))
            elif n["k"] == "whileset":
                for q, v in self.expr(n["e"], h):
                    for q2, c in self.branch(("typetest", v, n["type"]), q):
                        if c:
                            q2.env[n["name"]] = v
                            entries.append(q2)
                        else:
                            out.append((q2, ("next", ("const", "void", "()"))))
            else:
                ex = h.fork()
                ex.assume(("unk", "for-more-%s" % lid), False)
                out.append((ex, ("next", ("const", "void", "()"))))
                h.assume(("unk", "for-more-%s" % lid), True)
                h.env[n["name"]] = self.fresh()
                entries = [h]
            for e in entries:
                for q, fl in self.stmt(n["body"], e):
                    if fl[0] in ("next", "continue"):
                        q.events.append(("back", lid))
                        self.loopbacks.append(q)
                    elif fl[0] == "break":
                        q.events.append(("break", lid))
                        out.append((q, ("next", ("const", "void", "()"))))
                    else:
                        out.append((q, fl))
        return out

    # ================= conditions
    def branch(self, term, p):
        """fork `p` on the truth of term: [(path, bool)] (infeasible sides are dropped)"""
        kn = p.known(term)
        if kn is not None:
            return [(p, kn)]
        a, b = p, p.fork()
        a.assume(term, True)
        b.assume(term, False)
        return [(a, True), (b, False)]

    def cond(self, n, p):
        out = []
        for q, v in self.expr(n, p):
            out.extend(self.branch(v, q))
        return out

    # ================= expressions (each returns [(path, term)])
    def expr(self, n, p):
        k = n["k"]
        if k == "ident":
            v = p.env.get(n["name"])
            return [(p, v if v is not None else ("free", n["name"]))]
        if k == "const":
            return [(p, ("const", n["ty"], n["text"]))]
        if k in ("tuple", "array"):
            outs = [(p, [])]
            for it in n["items"]:
                nxt = []
                for q, acc in outs:
                    for q2, v in self.expr(it, q):
                        nxt.append((q2, acc + [v]))
                outs = nxt
            return [(q, (k, tuple(acc))) for q, acc in outs]
        if k == "arrayrepeat":
            return [(q2, ("bin", "arrayrepeat", a, b)) for q, a in self.expr(n["v"], p) for q2, b in self.expr(n["n"], q)]
        if k == "function":
            key = ("closure", n["at"], next(self.ids))
            self.closures[key] = (n, dict(p.env))
            return [(p, key)]
        if k == "mut":
            out = []
            for q, v in self.expr(n["e"], p):
                c = ("cell", next(self.ids))
                q.events.append(("write", c, "init", v, n["at"]))
                out.append((q, c))
            return out
        if k == "struct":
            outs = [(p, [])]
            for nm, e in n["fields"]:
                nxt = []
                for q, acc in outs:
                    for q2, v in self.expr(e, q):
                        nxt.append((q2, acc + [(nm, v)]))
                outs = nxt
            return [(q, ("struct", tuple(acc))) for q, acc in outs]
        if k == "mod":
            raise FlowError("module inside an analysed fragment")
        if k == "prefix":
            out = []
            for q, v in self.expr(n["e"], p):
                if n["op"] == "not":
                    out.append((q, v[1] if v[0] == "not" else ("not", v)))
                elif n["op"] == "indirection":
                    out.append((q, ("deref", v, q.versions.get(v, 0))))
                else:
                    out.append((q, ("neg", v)))
            return out
        if k == "infix":
            op = n["op"]
            if op in ("and", "or"):
                out = []
                for q, l in self.expr(n["l"], p):
                    for q2, c in self.branch(l, q):
                        if (op == "and" and not c) or (op == "or" and c):
                            out.append((q2, ("const", "true" if c else "false", "true" if c else "false")))
                        else:
                            out.extend(self.expr(n["r"], q2))
                return out
            out = []
            for q, l in self.expr(n["l"], p):
                for q2, r in self.expr(n["r"], q):
                    if op in ASSIGN_OPS:
                        q2.versions[l] = q2.versions.get(l, 0) + 1
                        q2.events.append(("write", l, op, r, n["at"]))
                        out.append((q2, r if op == "assign" else ("deref", l, q2.versions[l])))
                    elif op in ("map", "filter", "partition"):
                        i = next(self.ids)
                        q2.events.append(("ext", i, ("op", op), (l, r), n["at"]))
                        out.append((q2, ("ext", i)))
                    else:
                        out.append((q2, ("bin", op, l, r)))
            return out
        if k == "reduce":
            out = []
            for q, it in self.expr(n["it"], p):
                for q2, init in self.expr(n["init"], q):
                    for q3, f in self.expr(n["f"], q2):
                        i = next(self.ids)
                        q3.events.append(("ext", i, ("op", "reduce"), (it, init, f), n["at"]))
                        out.append((q3, ("ext", i)))
            return out
        if k == "call":
            outs = []
            for q, f in self.expr(n["f"], p):
                accs = [(q, [])]
                for a in n["args"]:
                    nxt = []
                    for q1, acc in accs:
                        for q2, v in self.expr(a, q1):
                            nxt.append((q2, acc + [v]))
                    accs = nxt
                for q1, acc in accs:
                    i = next(self.ids)
                    if f[0] in ("param", "free") and not acc:
                        q1.events.append(("pull", i, f, n["at"]))
                        outs.append((q1, ("pull", i, f)))
                    elif f[0] in ("param", "free"):
                        q1.events.append(("apply", i, f, tuple(acc), n["at"]))
                        outs.append((q1, ("apply", i, f, tuple(acc))))
                    else:
                        q1.events.append(("ext", i, f, tuple(acc), n["at"]))
                        outs.append((q1, ("ext", i)))
            return outs
        if k == "at":
            return [(q2, ("bin", "at", a, b)) for q, a in self.expr(n["e"], p) for q2, b in self.expr(n["i"], q)]
        if k == "slice":
            outs = [(p, [])]
            for part in (n["e"], n["start"], n["stop"], n["step"]):
                if part is None:
                    outs = [(q, acc + [None]) for q, acc in outs]
                    continue
                nxt = []
                for q, acc in outs:
                    for q2, v in self.expr(part, q):
                        nxt.append((q2, acc + [v]))
                outs = nxt
            return [(q, ("slice", tuple(acc))) for q, acc in outs]
        if k == "typefilter":
            out = []
            for q, v in self.expr(n["e"], p):
                i = next(self.ids)
                q.events.append(("ext", i, ("op", "typefilter"), (v, n["type"]), n["at"]))
                out.append((q, ("ext", i)))
            return out
        if k == "tupleaccess":
            return [(q, proj(v, n["i"])) for q, v in self.expr(n["e"], p)]
        if k == "field":
            return [(q, ("field", v, n["name"])) for q, v in self.expr(n["e"], p)]
        if k == "postfix":
            out = []
            for q, v in self.expr(n["e"], p):
                i = next(self.ids)
                q.events.append(("ext", i, ("op", n["op"]), (v,), n["at"]))
                out.append((q, ("ext", i)))
            return out
        # statements in expression position (if / match / block / loop as values)
        if k in ("if", "ifset", "match", "block", "loop", "while", "whileset", "for"):
            out = []
            for q, fl in self.stmt(n, p):
                if fl[0] == "next":
                    out.append((q, fl[1]))
                else:
                    raise FlowError("control transfer inside an expression operand")
            return out
        raise FlowError("unsupported expression kind %s" % k)


def _pull_shape(v):
    """(source, projection path) when v is a pull result or a component of one"""
    path = []
    while v[0] == "proj":
        path.append(v[2])
        v = v[1]
    if v[0] == "pull":
        return (v[2], tuple(reversed(path)))
    return None


def assigned_names(n):
    """names (re)declared by `:=` anywhere inside statement n (loop-carried values are havocked at the loop head)"""
    out = set()

    def walk(x):
        if isinstance(x, dict):
            if x.get("k") == "set":
                out.add(x["name"])
            elif x.get("k") == "destruct":
                out.update(x["names"])
            if x.get("k") == "function":
                return
            for v in x.values():
                walk(v)
        elif isinstance(x, (list, tuple)):
            for v in x:
                walk(v)
    walk(n)
    return out


def segments(events):
    """split an event list at loop heads: [(events of the segment)]"""
    segs = [[]]
    for e in events:
        if e[0] == "head":
            segs.append([])
        else:
            segs[-1].append(e)
    return segs


def contains(term, sub):
    if term == sub:
        return True
    if isinstance(term, tuple):
        return any(contains(t, sub) for t in term if isinstance(t, tuple))
    return False
