"""R-PAIRFLOW engine: abstract interpretation of the MIR of every function that walks pest Pairs, against the
child-sequence automata of the grammar.

Abstract values (hashable tuples):
  ('pair', frozenset(rule names))                      a Pair whose rule is one of these
  ('pairs', frozenset((rule, state)))                  a Pairs iterator: positions in children automata
  ('bag', frozenset(rule names))                       a collection of Pairs (Box<[Pair]>, Vec<Pair>)
  ('wrap', inner, may_empty, may_full)                 Option / Result / ControlFlow around `inner`
  ('rule', frozenset(rule names), src_local|None)      a Rule value read from the Pair in src_local
  ('bool', True|False|None, refine)                    comparison result; refine = (pair_local, frozenset, positive?)
  ('ref', local)                                       reference to a local of the same frame
  ('tuple', (v, ...)), ('closure', id, (captured...)), ('fnitem', id), ('pratt', ((slot, closure), ...))
  None                                                 anything else (untracked)
Trace partitioning: Pairs::next / peek fork one configuration per outgoing label (+ one for end-of-children), so a later
`pair.as_rule() == Rule::x` is decided per configuration instead of being joined away.
"""
from collections import deque
import sys

sys.setrecursionlimit(20000)

from .model import op_local, is_panic_call

FULL = {"Some", "Ok", "Continue"}
EMPTY = {"None", "Err", "Break"}
RULE = "simplesl_parser::Rule"
MAX_CONFIGS = 60000


class Finding:
    def __init__(self, kind, fn, line, detail, chain):
        self.kind, self.fn, self.line, self.detail, self.chain = kind, fn, line, detail, chain

    def key(self):
        return (self.kind, self.fn, self.detail)


class PairFlow:
    def __init__(self, lib, grammar, pratt_ops, max_depth=4000):
        self.sites = {}
        self.lib = lib
        self.g = grammar
        self.pratt_ops = pratt_ops          # {'prefix': set, 'infix': set, 'postfix': set}
        self.findings = {}
        self.memo = {}
        self.in_progress = set()
        self.stats = {"functions": set(), "configs": 0, "next_forks": 0, "unwraps_checked": 0, "dispatches": 0, "calls": 0,
                      "unknown_pairs": 0}
        self.max_depth = max_depth
        self.unwrap_sites = {}       # (fn, line) -> verdict 'ok'/'bad'
        self.dispatch_sites = {}     # (fn, line) -> set of rules seen

    # ---------------------------------------------------------------- grammar helpers
    def start_positions(self, rules):
        out = set()
        for r in rules:
            if r in self.g.rules:
                s, acc, tr = self.g.children_nfa(r)
                out.add((r, s))
        return frozenset(out)

    def top_positions(self, rule):
        """Pairs returned by Parser::parse(rule, ..): the rule's own token (normal) or its children (silent)."""
        if self.g.is_silent(rule):
            return self.start_positions([rule])
        return frozenset({("#" + rule, 0)})

    def trans(self, pos):
        r, s = pos
        if r.startswith("#"):
            return [(r[1:], 1)] if s == 0 else []
        return self.g.children_nfa(r)[2].get(s, [])

    def accepting(self, pos):
        r, s = pos
        if r.startswith("#"):
            return s == 1
        return s in self.g.children_nfa(r)[1]

    def labels_from(self, positions):
        """all labels reachable (any number of steps) from the positions"""
        seen, out = set(positions), set()
        dq = deque(positions)
        while dq:
            p = dq.popleft()
            for lab, s2 in self.trans(p):
                out.add(lab)
                q = (p[0], s2)
                if q not in seen:
                    seen.add(q)
                    dq.append(q)
        return frozenset(out)

    def labels_of(self, v):
        """labels a `pairs` value can still yield, honouring a pending peek"""
        pos, pend = v[1], v[2] if len(v) > 2 else None
        if pend is None:
            return self.labels_from(pos)
        if pend == "$end":
            return frozenset()
        nxt = {(p[0], s2) for p in pos for lab, s2 in self.trans(p) if lab == pend}
        return frozenset({pend}) | self.labels_from(nxt)

    def parity_labels(self, positions):
        seen = {(p, 0) for p in positions}
        dq = deque(seen)
        ev, od = set(), set()
        while dq:
            p, par = dq.popleft()
            for lab, s2 in self.trans(p):
                (ev if par == 0 else od).add(lab)
                q = ((p[0], s2), 1 - par)
                if q not in seen:
                    seen.add(q)
                    dq.append(q)
        return frozenset(ev), frozenset(od)

    # ---------------------------------------------------------------- findings
    def report(self, kind, fn, line, detail, chain):
        f = Finding(kind, fn, line, detail, tuple(chain))
        self.findings.setdefault(f.key(), f)

    # ---------------------------------------------------------------- values
    @staticmethod
    def pairish(v, depth=0):
        if v is None or depth > 4:
            return False
        k = v[0]
        if k in ("pair", "pairs", "bag", "pratt"):
            return True
        if k == "wrap":
            return PairFlow.pairish(v[1], depth + 1)
        if k == "tuple":
            return any(PairFlow.pairish(x, depth + 1) for x in v[1])
        if k == "closure":
            return any(PairFlow.pairish(x, depth + 1) for x in v[2])
        return False

    def deref(self, env, v):
        n = 0
        while v is not None and v[0] == "ref" and n < 5:
            v = env.get(v[1])
            n += 1
        return v

    def read_place(self, env, pl):
        v = env.get(pl["l"])
        down = None
        for e in pl["p"]:
            if v is None:
                return None
            k = e["k"]
            if k == "deref":
                if v[0] == "ref":
                    v = env.get(v[1])
                # Box / & of a tracked value: transparent
            elif k == "downcast":
                down = e.get("variant")
            elif k == "field":
                v = self.deref(env, v) if v[0] == "ref" else v
                if v is None:
                    return None
                if v[0] == "wrap":
                    v = v[1] if (down in FULL or down is None) else None
                    down = None
                elif v[0] == "tuple":
                    v = v[1][e["i"]] if e["i"] < len(v[1]) else None
                elif v[0] == "closure":
                    v = v[2][e["i"]] if e["i"] < len(v[2]) else None
                else:
                    return None
            elif k in ("index", "cindex"):
                if v[0] == "bag":
                    v = ("pair", v[1])
                else:
                    return None
            else:
                return None
        return v

    def operand(self, b, env, o):
        if not isinstance(o, dict):
            return None
        k = o.get("k")
        if k in ("copy", "move"):
            return self.read_place(env, o)
        if k == "const":
            if "fn" in o:
                return ("fnitem", o["fn"].get("resolved") or o["fn"]["path"])
            if "closure" in o:
                return ("closure", o["closure"], ())
            if o.get("ty") == RULE:
                return ("rule", frozenset({o["val"].rsplit("::", 1)[-1]}), None)
            if "promoted" in o and o.get("ty", "").endswith(RULE):
                # `&Rule::x` promoted constant: read the variant from the promoted body
                try:
                    pb = b.raw["promoted"][int(o["promoted"])]
                    vs = {st["rv"]["variant"] for blk in pb["blocks"] for st in blk["stmts"]
                          if st["k"] == "assign" and st["rv"]["k"] == "agg" and st["rv"].get("adt") == RULE}
                    if len(vs) == 1:
                        return ("rule", frozenset(vs), None)
                except (KeyError, IndexError, ValueError):
                    pass
            if o.get("ty") == "bool":
                return ("bool", o.get("val") == "true", None)
        return None

    # ---------------------------------------------------------------- function analysis
    def analyse(self, fid, args, chain, force=False):
        """Analyse body `fid` with abstract argument values; returns the abstract return value (or None)."""
        b = self.lib.body(fid)
        if b is None:
            return None
        if not force and not any(self.pairish(a) for a in args):
            return None
        key = (fid, tuple(args))
        if key in self.memo:
            return self.memo[key]
        if key in self.in_progress or len(chain) > self.max_depth:
            self.stats.setdefault('cut', 0)
            self.stats['cut'] += 1
            return None
        self.in_progress.add(key)
        self.stats["functions"].add(fid)
        env0 = {}
        for i, a in enumerate(args):
            if a is not None and i + 1 <= b.arg_count:
                env0[i + 1] = a
        rets = set()
        seen = set()
        work = deque([(0, self.freeze(env0))])
        chain2 = chain + [fid]
        while work:
            bb, fenv = work.popleft()
            if (bb, fenv) in seen:
                continue
            seen.add((bb, fenv))
            self.stats["configs"] += 1
            if self.stats["configs"] > MAX_CONFIGS:
                self.report("limit", fid, b.line, "configuration limit reached: analysis incomplete", chain2)
                break
            env = dict(fenv)
            for st in b.blocks[bb]["stmts"]:
                if st["k"] == "assign":
                    self.assign(b, env, st)
            t = b.blocks[bb]["term"]
            for nb, nenv in self.terminator(b, bb, env, t, chain2, rets):
                work.append((nb, self.freeze(nenv)))
        self.in_progress.discard(key)
        ret = next(iter(rets)) if len(rets) == 1 else None
        self.memo[key] = ret
        return ret

    @staticmethod
    def freeze(env):
        return tuple(sorted(((k, v) for k, v in env.items() if v is not None), key=lambda kv: kv[0]))

    def assign(self, b, env, st):
        pl, rv = st["place"], st["rv"]
        k = rv["k"]
        v = None
        if k == "use":
            v = self.operand(b, env, rv["o"])
        elif k in ("ref", "copyderef", "rawptr"):
            p = rv["place"]
            if not p["p"]:
                v = ("ref", p["l"]) if env.get(p["l"]) is not None else None
            else:
                cur = env.get(p["l"])
                if len(p["p"]) == 1 and p["p"][0]["k"] == "deref" and cur is not None and cur[0] == "ref":
                    v = cur                      # reborrow
                else:
                    v = self.read_place(env, p)  # reference to a part: snapshot of its value
        elif k == "cast":
            v = self.operand(b, env, rv["o"])
        elif k == "agg":
            vals = tuple(self.operand(b, env, o) for o in rv["ops"])
            if rv.get("agg") == "tuple":
                v = ("tuple", vals) if any(x is not None for x in vals) else None
            elif rv.get("agg") == "closure":
                v = ("closure", rv["closure"], tuple(self.deref(env, x) if (x and x[0] == "ref") else x for x in vals))
            elif rv.get("agg") == "adt":
                if rv["adt"] == RULE and not vals:
                    v = ("rule", frozenset({rv["variant"]}), None)
                elif rv["variant"] in FULL and len(vals) == 1 and vals[0] is not None:
                    v = ("wrap", vals[0], False, True)
                elif rv["variant"] in EMPTY and rv["adt"] in ("std::option::Option",):
                    v = ("wrap", None, True, False)
        elif k == "discr":
            src = self.read_place(env, rv["place"])
            base = rv["place"]["l"]
            if src is not None and src[0] == "wrap":
                v = ("discr-wrap", rv["place"]["l"] if not rv["place"]["p"] else None, src, tuple(sorted(rv.get("variants", {}).items())))
            elif src is not None and src[0] == "rule":
                v = ("discr-rule", src, tuple(sorted(rv.get("variants", {}).items())), base if not rv["place"]["p"] else None)
        if pl["p"]:
            if len(pl["p"]) == 1 and pl["p"][0]["k"] == "deref":
                cur = env.get(pl["l"])
                if cur is not None and cur[0] == "ref":
                    env[cur[1]] = v
            return
        env[pl["l"]] = v

    # ---------------------------------------------------------------- terminators
    def terminator(self, b, bb, env, t, chain, rets):
        k = t["k"]
        if k == "goto":
            return [(t["target"], env)]
        if k == "return":
            rets.add(env.get(0))
            return []
        if k in ("drop", "assert"):
            return [(t["target"], env)] if "target" in t else []
        if k == "switch":
            return self.switch(b, bb, env, t, chain)
        if k == "call":
            return self.call(b, bb, env, t, chain)
        return []

    def switch(self, b, bb, env, t, chain):
        d = self.operand(b, env, t["discr"])
        targets = t["targets"]
        other = t["otherwise"]
        out = []
        if d is not None and d[0] == "discr-wrap":
            _, loc, w, variants = d
            vmap = dict(variants)
            listed = set()
            for val, tgt in targets:
                name = vmap.get(val)
                listed.add(name)
                feas = (name in FULL and w[3]) or (name in EMPTY and w[2]) or name is None
                if feas:
                    e2 = dict(env)
                    if loc is not None and name is not None:
                        e2[loc] = ("wrap", w[1], name in EMPTY, name in FULL)
                    out.append((tgt, e2))
            rest = [n for n in vmap.values() if n not in listed]
            if any((n in FULL and w[3]) or (n in EMPTY and w[2]) for n in rest) or not rest:
                if rest:
                    e2 = dict(env)
                    if loc is not None and len(rest) == 1:
                        e2[loc] = ("wrap", w[1], rest[0] in EMPTY, rest[0] in FULL)
                    out.append((other, e2))
                elif not vmap:
                    out.append((other, env))
            return out
        if d is not None and d[0] == "discr-rule":
            _, rv, variants, rloc = d
            vmap = dict(variants)
            rules = rv[1]
            src = rv[2]
            self.stats["dispatches"] += 1
            listed = set()
            for val, tgt in targets:
                name = vmap.get(val)
                listed.add(name)
                if name in rules:
                    e2 = dict(env)
                    self.refine(e2, src, rloc, frozenset({name}))
                    out.append((tgt, e2))
            rest = frozenset(r for r in rules if r not in listed)
            self.dispatch_sites.setdefault((b.id, t.get("line")), set()).update(rules)
            if rest:
                e2 = dict(env)
                self.refine(e2, src, rloc, rest)
                # does the default arm panic?
                if self.leads_to_panic(b, other):
                    self.report("default-arm", b.id, t.get("line"),
                                "rules %s reach the default arm of the match on Rule, which panics" % sorted(rest), chain)
                else:
                    out.append((other, e2))
            return out
        if d is not None and d[0] == "bool":
            val, refine = d[1], d[2]
            zero = [tgt for v, tgt in targets if v == "0"]
            if val is True:
                return [(other, env)]
            if val is False and zero:
                return [(zero[0], env)]
            for branch_true, tgt in ((False, zero[0] if zero else None), (True, other)):
                if tgt is None:
                    continue
                e2 = dict(env)
                if refine is not None:
                    ploc, rset, positive = refine
                    cur = self.deref(e2, e2.get(ploc)) if ploc is not None else None
                    if cur is not None and cur[0] == "pair":
                        keep = (cur[1] & rset) if (branch_true == positive) else (cur[1] - rset)
                        if not keep:
                            continue
                        tgt_loc = ploc
                        if e2.get(ploc) is not None and e2[ploc][0] == "ref":
                            tgt_loc = e2[ploc][1]
                        e2[tgt_loc] = ("pair", keep)
                out.append((tgt, e2))
            return out
        # unknown condition: all branches
        seen = set()
        for _, tgt in targets:
            if tgt not in seen:
                seen.add(tgt)
                out.append((tgt, env))
        if other not in seen:
            out.append((other, env))
        return out

    def refine(self, env, src, rloc, rules):
        if rloc is not None and env.get(rloc) is not None and env[rloc][0] == "rule":
            env[rloc] = ("rule", rules, src)
        if src is not None:
            cur = env.get(src)
            tgt = src
            if cur is not None and cur[0] == "ref":
                tgt = cur[1]
                cur = env.get(tgt)
            if cur is not None and cur[0] == "pair":
                env[tgt] = ("pair", cur[1] & rules if (cur[1] & rules) else rules)

    def leads_to_panic(self, b, start):
        """the block (following gotos / formatting calls only) inevitably reaches a panic call"""
        seen = set()
        cur = start
        while cur not in seen:
            seen.add(cur)
            t = b.blocks[cur]["term"]
            if t["k"] == "call":
                fn = t["func"].get("fn", {})
                callee = fn.get("resolved") or fn.get("path", "")
                if callee.startswith("core::panicking::") or callee.startswith("std::rt::begin_panic"):
                    return True
                if callee.startswith(("core::fmt::", "std::fmt::", "<std::fmt", "core::fmt::rt")) and "target" in t:
                    cur = t["target"]
                    continue
                return False
            if t["k"] == "goto":
                cur = t["target"]
                continue
            if t["k"] == "unreachable":
                return True
            return False
        return False

    # ---------------------------------------------------------------- calls
    def call(self, b, bb, env, t, chain):
        fn = t["func"].get("fn")
        dest = t["dest"]
        tgt = t.get("target")
        args = [self.operand(b, env, a) for a in t["args"]]
        line = t.get("fn_line", t.get("line"))
        self.stats["calls"] += 1

        def done(val, e=None):
            e = dict(env) if e is None else e
            if not dest["p"]:
                e[dest["l"]] = val
            return [(tgt, e)] if tgt is not None else []

        if fn is None:
            # call through a closure / fn pointer local
            f = self.deref(env, self.operand(b, env, t["func"]))
            if f is not None and f[0] in ("closure", "fnitem"):
                return done(self.invoke(f, args, chain))
            return done(None)
        callee = fn.get("resolved") or fn["path"]
        path = fn["path"]
        m = path.rsplit("::", 1)[-1]
        a0 = self.deref(env, args[0]) if args else None

        if path == "pest::iterators::Pair::<'i, R>::into_inner":
            if a0 is not None and a0[0] == "pair":
                return done(("pairs", self.start_positions(a0[1]), None))
            self.stats["unknown_pairs"] += 1
            return done(None)
        if path in ("pest::iterators::Pair::<'i, R>::as_rule",):
            if a0 is not None and a0[0] == "pair":
                src = op_local(t["args"][0]) if op_local(t["args"][0]) is not None else None
                return done(("rule", a0[1], src))
            return done(None)
        if path.endswith("as std::iter::Iterator>::next") or path == "std::iter::Iterator::next" or path == "pest::iterators::Pairs::<'i, R>::peek":
            is_peek = path.endswith("::peek")
            if a0 is not None and a0[0] == "pairs":
                holder = args[0][1] if (args[0] is not None and args[0][0] == "ref") else None
                pend = a0[2]
                outs = []
                by_label = {}
                ends = set()
                for p in a0[1]:
                    for lab, s2 in self.trans(p):
                        if pend is None or pend == lab:
                            by_label.setdefault(lab, set()).add((p, (p[0], s2)))
                    if self.accepting(p) and pend in (None, "$end"):
                        ends.add(p)
                self.stats["next_forks"] += len(by_label) + (1 if ends else 0)
                for lab, moves in sorted(by_label.items()):
                    e2 = dict(env)
                    if holder is not None:
                        if is_peek:
                            e2[holder] = ("pairs", frozenset(src for src, _ in moves), lab)
                        else:
                            e2[holder] = ("pairs", frozenset(dst for _, dst in moves), None)
                    outs += done(("wrap", ("pair", frozenset({lab})), False, True), e2)
                if ends:
                    e2 = dict(env)
                    if holder is not None:
                        e2[holder] = ("pairs", frozenset(ends), "$end")
                    outs += done(("wrap", None, True, False), e2)
                return outs
            return done(None)
        if path == "std::option::Option::<T>::unwrap" or path == "std::option::Option::<T>::expect":
            if a0 is not None and a0[0] == "wrap":
                ty = t.get("arg_tys", [""])[0]
                if "pest::iterators::Pair" in ty:
                    self.stats["unwraps_checked"] += 1
                    site = (b.id, line)
                    if a0[2]:
                        self.unwrap_sites[site] = "bad"
                        self.report("unwrap-none", b.id, line, "unwrap of a child pair that the grammar allows to be absent", chain)
                    else:
                        self.unwrap_sites.setdefault(site, "ok")
                if not a0[3]:
                    return []           # definitely None: panics, no continuation
                return done(a0[1])
            return done(None)
        if path in ("<std::result::Result<T, E> as std::ops::Try>::branch", "std::ops::Try::branch") or m == "branch":
            if a0 is not None and a0[0] == "wrap":
                return done(a0)
            return done(None)
        if path in ("std::option::Option::<T>::map", "std::result::Result::<T, E>::map", "std::option::Option::<T>::and_then"):
            if a0 is not None and a0[0] == "wrap" and len(args) > 1:
                if a0[3] and a0[1] is not None:
                    r = self.invoke(self.deref(env, args[1]), [a0[1]], chain)
                    return done(("wrap", r, a0[2], True) if r is not None else None)
                return done(("wrap", None, True, False))
            return done(None)
        if path in ("std::option::Option::<T>::map_or_else", "std::option::Option::<T>::map_or"):
            if a0 is not None and a0[0] == "wrap" and len(args) > 2 and a0[3] and a0[1] is not None:
                self.invoke(self.deref(env, args[2]), [a0[1]], chain)
            return done(None)
        if path in ("std::option::Option::<T>::unwrap_or", "std::option::Option::<T>::unwrap_or_else", "std::option::Option::<T>::unwrap_or_default"):
            return done(a0[1] if (a0 is not None and a0[0] == "wrap" and a0[3] and not a0[2]) else None)
        if path == "std::iter::Iterator::map" or path == "std::iter::Iterator::for_each" or path == "std::iter::Iterator::filter_map":
            f = self.deref(env, args[1]) if len(args) > 1 else None
            if a0 is not None and a0[0] == "pairs":
                for lab in sorted(self.labels_of(a0)):
                    self.invoke(f, [("pair", frozenset({lab}))], chain)
                return done(None)
            if a0 is not None and a0[0] == "tuples":
                ev, od = self.parity_labels(a0[1])
                for l1 in sorted(ev):
                    for l2 in sorted(od):
                        self.invoke(f, [("tuple", (("pair", frozenset({l1})), ("pair", frozenset({l2}))))], chain)
                return done(None)
            return done(None)
        if path == "itertools::Itertools::tuples":
            if a0 is not None and a0[0] == "pairs":
                return done(("tuples", a0[1]))
            return done(None)
        if path == "std::iter::Iterator::collect":
            if a0 is not None and a0[0] == "pairs":
                return done(("bag", self.labels_of(a0)))
            return done(None)
        if m == "clone" and a0 is not None and a0[0] in ("pair", "pairs", "bag"):
            return done(a0)
        if m in ("deref", "as_ref", "borrow", "into_iter", "by_ref", "into", "from") and a0 is not None and a0[0] in ("pair", "pairs", "bag") \
                and not callee.startswith(("<instruction", "instruction", "<variable", "variable", "<function", "function")):
            return done(a0)
        if path.endswith("as pest::Parser<simplesl_parser::Rule>>::parse") or path == "pest::Parser::parse":
            r = args[0]
            if r is not None and r[0] == "rule" and len(r[1]) == 1:
                rule = next(iter(r[1]))
                return done(("wrap", ("pairs", self.top_positions(rule), None), True, True))
            return done(None)
        if path == "std::cmp::PartialEq::eq" or path == "std::cmp::PartialEq::ne":
            a1 = self.deref(env, args[1]) if len(args) > 1 else None
            if a0 is not None and a1 is not None and a0[0] == "rule" and a1[0] == "rule":
                lhs, rhs = (a0, a1) if a0[2] is not None or a1[2] is None else (a1, a0)
                pos = not path.endswith("::ne")
                if len(rhs[1]) == 1:
                    one = next(iter(rhs[1]))
                    if lhs[1] == rhs[1]:
                        return done(("bool", pos, None))
                    if one not in lhs[1]:
                        return done(("bool", not pos, None))
                    return done(("bool", None, (lhs[2], rhs[1], pos)))
            return done(None)
        # Pratt parser
        if path.startswith("pest::pratt_parser::PrattParser::<R>::map_primary"):
            return done(("pratt", (("primary", self.deref(env, args[1])),)))
        if path.startswith("pest::pratt_parser::PrattParserMap") and m in ("map_prefix", "map_infix", "map_postfix"):
            if a0 is not None and a0[0] == "pratt":
                return done(("pratt", a0[1] + ((m[4:], self.deref(env, args[1])),)))
            return done(None)
        if path.startswith("pest::pratt_parser::PrattParserMap") and m == "parse":
            ps = self.deref(env, args[1]) if len(args) > 1 else None
            if a0 is not None and a0[0] == "pratt" and ps is not None and ps[0] == "pairs":
                self.pratt_parse(b, line, dict(a0[1]), ps, chain)
            return done(None)
        if m == "deref" and path.startswith("<") and "PRATT_PARSER" in path:
            return done(None)
        # crate-local callee (or fn item): interprocedural
        if self.lib.body(callee) is not None:
            vals = [self.deref(env, a) if (a is not None and a[0] == "ref") else a for a in args]
            # which rules the pair handed over at this call site can have (used by R-PAIRFIELD)
            for v in vals:
                if v is not None and v[0] == "pair":
                    self.sites.setdefault((b.id, bb, callee), set()).update(v[1] if isinstance(v[1], (set, frozenset)) else set())
            return done(self.analyse(callee, vals, chain + ["%s:%s" % (b.id, line)]))
        return done(None)

    def invoke(self, f, args, chain):
        if f is None:
            return None
        if f[0] == "fnitem":
            return self.analyse(f[1], args, chain)
        if f[0] == "closure":
            cb = self.lib.body(f[1])
            if cb is None:
                return None
            # closure bodies take (env, args...) ; a by-ref closure env is transparent for read_place
            return self.analyse(f[1], [("closure", f[1], f[2])] + list(args), chain)
        return None

    def pratt_parse(self, b, line, slots, ps, chain):
        labels = self.labels_of(ps)
        ops = self.pratt_ops
        allops = ops["prefix"] | ops["infix"] | ops["postfix"]
        prim = labels - allops
        for lab in sorted(prim):
            self.invoke(slots.get("primary"), [("pair", frozenset({lab}))], chain)
        for fix, argpos in (("prefix", 0), ("postfix", 1), ("infix", 1)):
            f = slots.get(fix)
            here = labels & ops[fix]
            if here and f is None:
                self.report("pratt-slot", b.id, line, "operators %s reach the Pratt parser but no map_%s closure is installed" % (sorted(here), fix), chain)
            for lab in sorted(here):
                p = ("pair", frozenset({lab}))
                if fix == "prefix":
                    self.invoke(f, [p, None], chain)
                elif fix == "postfix":
                    self.invoke(f, [None, p], chain)
                else:
                    self.invoke(f, [None, p, None], chain)
