"""SimpleSL source embedded in the Rust sources: every `Code::parse(.., <text>)` whose text is a literal or a
`format!` template is recovered from the MIR facts, parsed with the repository's own grammar (tools/ssl-grammar `parse`,
an interpreter of the pest grammar on pest's ParserState) and turned into an AST (ssl/sslast.py).

Nothing is executed: this is the parsing step of a static analysis of SimpleSL code that happens to live in string
literals (MAP, FILTER, ITER, the TypeFilter template, stdlib/operators.rs)."""
import json
import os
import re
import subprocess
import tempfile

from . import extract
from .rules.export import single_def
from .model import op_local

CODE_PARSE = "code::Code::parse"
HOLE = "int"          # text substituted for a `{}` of a format template that stands for a type


class SnippetError(Exception):
    pass


def rust_str_unescape(v):
    """text of a rustc-printed `"..."` &str constant"""
    assert v.startswith('"') and v.endswith('"'), v[:40]
    s = v[1:-1]
    out = []
    i = 0
    while i < len(s):
        c = s[i]
        if c != "\\":
            out.append(c)
            i += 1
            continue
        n = s[i + 1]
        if n == "n":
            out.append("\n")
        elif n == "t":
            out.append("\t")
        elif n == "r":
            out.append("\r")
        elif n == "0":
            out.append("\0")
        elif n in "\\\"'":
            out.append(n)
        elif n == "u":
            j = s.index("}", i)
            out.append(chr(int(s[i + 3:j], 16)))
            i = j + 1
            continue
        elif n == "x":
            out.append(chr(int(s[i + 2:i + 4], 16)))
            i += 4
            continue
        else:
            raise SnippetError("unknown escape \\%s" % n)
        i += 2
    return "".join(out)


def rust_bytes_unescape(v):
    """bytes of a rustc-printed `b"..."` constant"""
    assert v.startswith('b"') and v.endswith('"'), v[:40]
    s = v[2:-1]
    out = bytearray()
    i = 0
    while i < len(s):
        c = s[i]
        if c != "\\":
            out += c.encode("utf-8")
            i += 1
            continue
        n = s[i + 1]
        if n == "x":
            out.append(int(s[i + 2:i + 4], 16))
            i += 4
            continue
        out.append({"n": 10, "t": 9, "r": 13, "0": 0, "\\": 92, '"': 34, "'": 39}[n])
        i += 2
    return bytes(out)


def decode_fmt_template(raw):
    """core::fmt::Arguments template bytes -> list of pieces: str (literal) or int (argument index)"""
    out = []
    i = 0
    nxt = 0
    while True:
        n = raw[i]
        i += 1
        if n == 0:
            return out
        if n < 0x80:
            out.append(raw[i:i + n].decode("utf-8"))
            i += n
        elif n == 0x80:
            ln = raw[i] | (raw[i + 1] << 8)
            i += 2
            out.append(raw[i:i + ln].decode("utf-8"))
            i += ln
        elif n >= 0xC0:
            idx = nxt
            if n & 1:
                i += 4
            if n & 2:
                i += 2
            if n & 4:
                i += 2
            if n & 8:
                idx = raw[i] | (raw[i + 1] << 8)
                i += 2
            out.append(idx)
            nxt = idx + 1
        else:
            raise SnippetError("undecodable format template byte 0x%02x" % n)


_LIB = {}


def _text_of(b, o, depth=0):
    """(text, holes) the &str operand denotes: a literal, or a format! template with `{}` replaced by HOLE"""
    if depth > 10 or not isinstance(o, dict):
        return None
    if o.get("k") == "const":
        if o.get("ty") == "&str":
            return rust_str_unescape(o["val"]), 0
        return None
    l = op_local(o)
    if l is None:
        return None
    d = single_def(b, l)
    if d is None:
        return None
    if d[1] == "assign":
        rv = d[2]["rv"]
        if rv["k"] == "use":
            return _text_of(b, rv["o"], depth + 1)
        if rv["k"] in ("ref", "copyderef"):
            return _text_of(b, {"k": "copy", "l": rv["place"]["l"], "p": []}, depth + 1)
        if rv["k"] == "cast":
            return _text_of(b, rv["o"], depth + 1)
        return None
    t = d[2]
    p = t["func"].get("fn", {}).get("path", "")
    last = p.rsplit("::", 1)[-1]
    if last in ("deref", "as_str", "as_ref", "borrow", "must_use", "into", "from", "clone", "to_string", "to_owned"):
        return _text_of(b, t["args"][0], depth + 1)
    if p in ("std::fmt::format", "alloc::fmt::format"):
        return _template_of(b, t["args"][0], depth + 1)
    # a private helper that only builds the text (e.g. `fn source(&self) -> String { format!(..) }`)
    lib = _LIB.get("lib")
    callee = t["func"].get("fn", {}).get("resolved") or p
    cb = lib.body(callee) if lib is not None else None
    if cb is not None and cb is not b and depth < 8:
        ds = cb.def_sites(0)
        if len(ds) == 1:
            return _text_of(cb, {"k": "move", "l": 0, "p": []}, depth + 1)
    return None


def _template_of(b, o, depth):
    """the fmt::Arguments operand: find the template bytes constant among its defining call's arguments"""
    l = op_local(o)
    d = single_def(b, l) if l is not None else None
    if d is None or d[1] != "call":
        return None
    for a in d[2]["args"]:
        raw = _bytes_const(b, a, 0)
        if raw is not None:
            pieces = decode_fmt_template(raw)
            return "".join(p if isinstance(p, str) else HOLE for p in pieces), sum(1 for p in pieces if not isinstance(p, str))
    return None


def _bytes_const(b, o, depth):
    if depth > 6 or not isinstance(o, dict):
        return None
    if o.get("k") == "const":
        v = o.get("val") or ""
        if v.startswith('b"'):
            return rust_bytes_unescape(v)
        return None
    l = op_local(o)
    d = single_def(b, l) if l is not None else None
    if d is None or d[1] != "assign":
        return None
    rv = d[2]["rv"]
    if rv["k"] == "use":
        return _bytes_const(b, rv["o"], depth + 1)
    if rv["k"] in ("ref", "copyderef"):
        return _bytes_const(b, {"k": "copy", "l": rv["place"]["l"], "p": []}, depth + 1)
    return None


def collect(lib):
    """[{body, static, text, holes, line}] for every Code::parse call in the library crate (tests excluded: lib facts)"""
    out = []
    _LIB["lib"] = lib
    for b in lib.bodies.values():
        for c in b.calls:
            if c.callee != CODE_PARSE:
                continue
            tx = _text_of(b, c.args[1]) if len(c.args) > 1 else None
            m = re.match(r"<(.*) as std::ops::Deref>::deref::__static_ref_initialize", b.id)
            out.append({"body": b.id, "static": m.group(1) if m else None, "text": tx[0] if tx else None,
                        "holes": tx[1] if tx else 0, "line": c.line, "file": b.file})
    return out


def _esc(t):
    return t.replace("\\", "\\\\").replace("\n", "\\n").replace("\t", "\\t").replace("\r", "\\r")


def parse_all(snips, grammar_path, rule="input"):
    """adds 'tree' (list of pair dicts) or 'error' to each snippet that has a text"""
    todo = [(i, s) for i, s in enumerate(snips) if s["text"] is not None and "\0" not in s["text"]]
    if not todo:
        return snips
    with tempfile.NamedTemporaryFile("w", suffix=".tsv", delete=False) as fh:
        for i, s in todo:
            fh.write("%d\t%s\t%s\n" % (i, rule, _esc(s["text"])))
        path = fh.name
    try:
        r = subprocess.run([extract.GRAMMAR_BIN, "parse", grammar_path, path], stdout=subprocess.PIPE, stderr=subprocess.PIPE, text=True)
    finally:
        os.unlink(path)
    if r.returncode != 0:
        raise SnippetError("ssl-grammar parse failed: " + r.stderr[-500:])
    res = json.loads(r.stdout)
    for i, s in todo:
        e = res[str(i)]
        if e["ok"]:
            s["tree"] = e["tree"]
        else:
            s["error"] = e["error"]
    return snips


def load(ctx):
    """snippets of the current tree, parsed; cached on the ctx"""
    if getattr(ctx, "_snippets", None) is None:
        sn = collect(ctx.facts.lib)
        parse_all(sn, os.path.join(extract.REPO, "parser/src/simplesl.pest"))
        ctx._snippets = sn
    return ctx._snippets
