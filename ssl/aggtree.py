"""Reconstruct the tree of aggregates a MIR operand denotes (for functions that build instruction trees by hand).

tree(b, operand) ->
  ('adt', path, variant, {field: tree})   struct / enum aggregate
  ('array', [tree])  ('tuple', [tree])
  ('static', name)                        value read from a lazy static (through Deref / clone)
  ('call', callee, [tree])                result of any other call
  ('const', text)  ('arg', n)  ('local', n)
Conversions (`into`, `from`, `clone`, `Arc::new`, `Box::new`, `?`) are transparent."""
from .model import op_local

TRANSPARENT = {"into", "from", "clone", "new", "to_owned", "as_ref", "borrow", "branch", "deref_inner"}


_CTX = {"lib": None, "known": None}


def configure(lib, known):
    """helper functions that did not exist when the tables were reviewed (not in `known`) are read through: a call of
    one denotes what its body returns"""
    _CTX["lib"] = lib
    _CTX["known"] = known


def _return_tree(cb, depth):
    defs = cb.def_sites(0)
    if len(defs) != 1:
        return None
    bb, kind, obj = defs[0]
    if kind == "call":
        return local_tree(cb, 0, depth, frozenset()) if False else ("call", (obj["func"].get("fn", {}).get("resolved") or obj["func"].get("fn", {}).get("path", "")),
                                                                     [tree(cb, a, depth + 1) for a in obj.get("args", [])])
    return local_tree_from_rv(cb, obj["rv"], depth)


def local_tree_from_rv(b, rv, depth):
    k = rv["k"]
    if k in ("use", "cast"):
        return tree(b, rv["o"], depth + 1)
    if k in ("ref", "copyderef"):
        return local_tree(b, rv["place"]["l"], depth + 1, frozenset())
    if k == "agg":
        if rv.get("agg") == "adt":
            fields = rv.get("fields") or [str(i) for i in range(len(rv["ops"]))]
            return ("adt", rv.get("adt"), rv.get("variant"), {f: tree(b, x, depth + 1) for f, x in zip(fields, rv["ops"])})
        if rv.get("agg") in ("array", "tuple"):
            return (rv["agg"], [tree(b, x, depth + 1) for x in rv["ops"]])
    return ("none",)


def _subst(t, args):
    if not isinstance(t, tuple):
        return t
    if t[0] == "arg" and 1 <= t[1] <= len(args):
        return args[t[1] - 1]
    if t[0] == "adt":
        return ("adt", t[1], t[2], {k: _subst(v, args) for k, v in t[3].items()})
    if t[0] in ("array", "tuple"):
        return (t[0], [_subst(v, args) for v in t[1]])
    if t[0] == "call":
        return ("call", t[1], [_subst(v, args) for v in t[2]])
    return t


def tree(b, o, depth=0, seen=None):
    if depth > 40:
        return ("deep",)
    if not isinstance(o, dict):
        return ("none",)
    if o.get("k") == "const":
        if "static" in o:
            return ("static", o["static"])
        return ("const", str(o.get("val")))
    l = o.get("l")
    if l is None:
        return ("none",)
    return local_tree(b, l, depth, seen or frozenset())


def local_tree(b, l, depth, seen):
    if l in seen:
        return ("cycle", l)
    seen = seen | {l}
    if 1 <= l <= b.arg_count:
        return ("arg", l)
    ds = b.def_sites(l)
    if len(ds) != 1:
        return ("local", l)
    d = ds[0]
    if d[1] == "call":
        t = d[2]
        fn = t["func"].get("fn", {})
        callee = fn.get("resolved") or fn.get("path", "")
        last = callee.rsplit("::", 1)[-1]
        args = t.get("args", [])
        if callee.endswith(" as std::ops::Deref>::deref") and args:
            inner = tree(b, args[0], depth + 1, seen)
            return inner
        if (last in TRANSPARENT or "Try>::branch" in callee) and args and not callee.startswith("instruction::"):
            return tree(b, args[0], depth + 1, seen)
        argt = [tree(b, a, depth + 1, seen) for a in args]
        lib, known = _CTX["lib"], _CTX["known"]
        if lib is not None and known is not None and callee not in known and lib.body(callee) is not None and "{closure" not in callee and depth < 30:
            rt = _return_tree(lib.body(callee), depth + 1)
            if rt is not None and rt[0] != "none":
                return _subst(rt, argt)
        return ("call", callee, argt)
    rv = d[2]["rv"]
    k = rv["k"]
    if k in ("use", "cast"):
        return tree(b, rv["o"], depth + 1, seen)
    if k in ("ref", "copyderef"):
        return local_tree(b, rv["place"]["l"], depth + 1, seen)
    if k == "agg":
        if rv.get("agg") == "adt":
            fields = rv.get("fields") or [str(i) for i in range(len(rv["ops"]))]
            return ("adt", rv.get("adt"), rv.get("variant"), {f: tree(b, x, depth + 1, seen) for f, x in zip(fields, rv["ops"])})
        if rv.get("agg") in ("array", "tuple"):
            return (rv["agg"], [tree(b, x, depth + 1, seen) for x in rv["ops"]])
        if rv.get("agg") == "closure":
            return ("closure", rv.get("closure"))
    return ("local", l)


def find(t, pred, out=None):
    """all sub-trees satisfying pred, pre-order"""
    out = [] if out is None else out
    if not isinstance(t, tuple):
        return out
    if pred(t):
        out.append(t)
    if t[0] == "adt":
        for v in t[3].values():
            find(v, pred, out)
    elif t[0] in ("array", "tuple"):
        for v in t[1]:
            find(v, pred, out)
    elif t[0] == "call":
        for v in t[2]:
            find(v, pred, out)
    return out


def is_adt(t, suffix, variant=None):
    return isinstance(t, tuple) and t[0] == "adt" and (t[1] or "").endswith(suffix) and (variant is None or t[2] == variant)


def show(t, depth=0):
    if not isinstance(t, tuple):
        return str(t)
    if depth > 6:
        return "..."
    if t[0] == "adt":
        return "%s{%s}" % ((t[2] or t[1]).rsplit("::", 1)[-1], ", ".join("%s: %s" % (k, show(v, depth + 1)) for k, v in t[3].items()))
    if t[0] in ("array", "tuple"):
        return "[%s]" % ", ".join(show(v, depth + 1) for v in t[1])
    if t[0] == "call":
        return "%s(%s)" % (t[1].rsplit("::", 2)[-2] + "::" + t[1].rsplit("::", 1)[-1] if "::" in t[1] else t[1], ", ".join(show(v, depth + 1) for v in t[2]))
    return "%s:%s" % (t[0], t[1] if len(t) > 1 else "")
