"""In-memory model of the facts: bodies, CFG, dominators, def-use, call graph."""
import json
import os
from collections import defaultdict, deque


class Call:
    __slots__ = ("body", "bb", "term", "fn", "path", "resolved", "callee", "args", "dest", "line", "exp")

    def __init__(self, body, bb, term):
        self.body = body
        self.bb = bb
        self.term = term
        f = term["func"]
        self.fn = f.get("fn")
        if self.fn:
            self.path = self.fn["path"]
            self.resolved = self.fn.get("resolved") or ""
            # the callee actually invoked: the resolved instance when rustc could resolve it
            self.callee = self.resolved or self.path
        else:
            self.path = self.resolved = ""
            self.callee = ""  # indirect (fn pointer / closure local)
        self.args = term.get("args", [])
        self.dest = term.get("dest")
        self.line = term.get("fn_line", term.get("line"))
        self.exp = term.get("exp")

    @property
    def self_ty(self):
        return (self.fn or {}).get("self_ty", "")

    @property
    def full(self):
        return (self.fn or {}).get("rfull") or (self.fn or {}).get("full", "")

    def where(self):
        return "%s:%s" % (self.body.file, self.line)


class Body:
    def __init__(self, raw, crate):
        self.raw = raw
        self.crate = crate
        self.id = raw["id"]
        self.kind = raw["kind"]
        self.file = raw.get("file", "")
        self.line = raw.get("line", 0)
        self.exp = raw.get("exp")
        self.parent = raw.get("parent", "")
        self.sig = raw.get("sig", "")
        self.name = raw.get("name", "")
        self.impl_trait = raw.get("impl_trait", "")
        self.impl_self = raw.get("impl_self", "")
        mir = raw["mir"]
        self.locals = mir["locals"]
        self.arg_count = mir["arg_count"]
        self.blocks = mir["blocks"]
        self.names = mir.get("names", [])
        self._succ = None
        self._pred = None
        self._dom = None
        self._calls = None

    # ---- CFG
    @staticmethod
    def term_succ(t, with_unwind=False):
        k = t["k"]
        out = []
        if k == "goto":
            out = [t["target"]]
        elif k == "switch":
            out = [b for _, b in t["targets"]] + [t["otherwise"]]
        elif k in ("call", "drop", "assert"):
            if "target" in t:
                out = [t["target"]]
            if with_unwind and "unwind" in t:
                out.append(t["unwind"])
        return out

    @property
    def succ(self):
        if self._succ is None:
            self._succ = [self.term_succ(b["term"]) for b in self.blocks]
        return self._succ

    @property
    def pred(self):
        if self._pred is None:
            p = [[] for _ in self.blocks]
            for i, ss in enumerate(self.succ):
                for s in ss:
                    p[s].append(i)
            self._pred = p
        return self._pred

    def reachable(self, start=0, avoid=()):
        """Blocks reachable from `start` (normal edges only) without entering blocks in `avoid`."""
        avoid = set(avoid)
        seen = set()
        if start in avoid:
            return seen
        dq = deque([start])
        seen.add(start)
        while dq:
            b = dq.popleft()
            for s in self.succ[b]:
                if s not in seen and s not in avoid:
                    seen.add(s)
                    dq.append(s)
        return seen

    def reachable_after(self, start, avoid=()):
        """Blocks reachable from the successors of `start` (not necessarily start itself)."""
        avoid = set(avoid)
        seen = set()
        dq = deque(s for s in self.succ[start] if s not in avoid)
        seen.update(dq)
        while dq:
            b = dq.popleft()
            for s in self.succ[b]:
                if s not in seen and s not in avoid:
                    seen.add(s)
                    dq.append(s)
        return seen

    @property
    def dom(self):
        """dom[b] = set of blocks dominating b (normal edges; unreachable blocks -> empty set)."""
        if self._dom is None:
            n = len(self.blocks)
            reach = self.reachable(0)
            order = []
            seen = set()

            def dfs(u):
                stack = [(u, iter(self.succ[u]))]
                seen.add(u)
                while stack:
                    v, it = stack[-1]
                    adv = False
                    for w in it:
                        if w not in seen:
                            seen.add(w)
                            stack.append((w, iter(self.succ[w])))
                            adv = True
                            break
                    if not adv:
                        order.append(v)
                        stack.pop()
            dfs(0)
            rpo = order[::-1]
            dom = {b: None for b in reach}
            dom[0] = {0}
            changed = True
            while changed:
                changed = False
                for b in rpo:
                    if b == 0:
                        continue
                    ps = [dom[p] for p in self.pred[b] if p in dom and dom[p] is not None]
                    if not ps:
                        continue
                    new = set.intersection(*ps) | {b}
                    if new != dom[b]:
                        dom[b] = new
                        changed = True
            self._dom = [dom.get(b) or set() for b in range(n)]
        return self._dom

    def dominates(self, a, b):
        return a in self.dom[b]

    # ---- calls
    @property
    def calls(self):
        if self._calls is None:
            self._calls = [Call(self, i, b["term"]) for i, b in enumerate(self.blocks) if b["term"]["k"] == "call"]
        return self._calls

    def calls_to(self, *names, resolved_only=False):
        out = []
        for c in self.calls:
            if c.callee in names or (not resolved_only and c.path in names):
                out.append(c)
        return out

    def return_blocks(self):
        return [i for i, b in enumerate(self.blocks) if b["term"]["k"] == "return"]

    def stmts(self):
        for i, b in enumerate(self.blocks):
            for s in b["stmts"]:
                yield i, s

    def assigns(self):
        for i, s in self.stmts():
            if s["k"] == "assign":
                yield i, s

    def fn_operands(self):
        """fn items / closures mentioned as values (not as the callee of a call): may-call edges."""
        out = []

        def scan(o, bb, line):
            if not isinstance(o, dict):
                return
            if o.get("k") == "const":
                if "fn" in o:
                    f = o["fn"]
                    out.append((bb, f.get("resolved") or f["path"], f, line))
                elif "closure" in o:
                    out.append((bb, o["closure"], None, line))
        for i, b in enumerate(self.blocks):
            for s in b["stmts"]:
                if s["k"] != "assign":
                    continue
                rv = s["rv"]
                for key in ("o", "a", "b"):
                    if key in rv:
                        scan(rv[key], i, s.get("line"))
                for o in rv.get("ops", []):
                    scan(o, i, s.get("line"))
                if rv.get("k") == "agg" and rv.get("agg") == "closure":
                    out.append((i, rv["closure"], None, s.get("line")))
            t = b["term"]
            if t["k"] == "call":
                for a in t["args"]:
                    scan(a, i, t.get("line"))
        return out

    def local_ty(self, l):
        return self.locals[l]["ty"]

    def def_sites(self, local):
        """(bb, kind, obj) for every write of `local` as a whole (assign statement or call destination)."""
        out = []
        for i, b in enumerate(self.blocks):
            for s in b["stmts"]:
                if s["k"] == "assign" and s["place"]["l"] == local and not s["place"]["p"]:
                    out.append((i, "assign", s))
            t = b["term"]
            if t["k"] == "call" and t["dest"]["l"] == local and not t["dest"]["p"]:
                out.append((i, "call", t))
        return out

    def uses(self, local):
        """(bb, what, obj) for every read of `local` (as operand base, in a ref, discriminant, call arg...)."""
        out = []

        def op_uses(o):
            return isinstance(o, dict) and o.get("k") in ("copy", "move") and o.get("l") == local
        for i, b in enumerate(self.blocks):
            for s in b["stmts"]:
                if s["k"] != "assign":
                    continue
                rv = s["rv"]
                hit = False
                for key in ("o", "a", "b"):
                    if key in rv and op_uses(rv[key]):
                        hit = True
                for o in rv.get("ops", []):
                    if op_uses(o):
                        hit = True
                if "place" in rv and rv["place"]["l"] == local:
                    hit = True
                if s["place"]["l"] == local and s["place"]["p"]:
                    out.append((i, "partial-write", s))
                if hit:
                    out.append((i, "stmt", s))
            t = b["term"]
            if t["k"] == "call":
                for n, a in enumerate(t["args"]):
                    if op_uses(a):
                        out.append((i, "arg%d" % n, t))
                if op_uses(t["func"]):
                    out.append((i, "callee", t))
            elif t["k"] == "switch":
                if op_uses(t["discr"]):
                    out.append((i, "switch", t))
            elif t["k"] == "drop":
                if t["place"]["l"] == local:
                    out.append((i, "drop", t))
            elif t["k"] == "assert":
                if op_uses(t["cond"]):
                    out.append((i, "assert", t))
        return out

    def where(self, line=None):
        return "%s:%s" % (self.file, line if line is not None else self.line)


def _apply_renames(raw, ren):
    """Present renamed / moved functions under their reviewed names (ids of bodies, closures, parents and callee paths)."""
    if not ren:
        return
    import json as _json
    olds = sorted(ren, key=len, reverse=True)

    def fix(sv):
        for o in olds:
            if sv == o or sv.startswith(o + "::{closure#"):
                return ren[o] + sv[len(o):]
        return sv

    def walk(x):
        if isinstance(x, dict):
            for k2, v in x.items():
                if isinstance(v, str):
                    if k2 in ("id", "parent", "path", "resolved", "closure", "uneval"):
                        x[k2] = fix(v)
                else:
                    walk(v)
        elif isinstance(x, list):
            for v in x:
                walk(v)
    walk(raw["bodies"])
    walk(raw.get("impls", []))


class Crate:
    def __init__(self, raw, renames=None):
        self.raw = raw
        self.name = raw["crate"]
        self.renamed = dict(renames or {})
        _apply_renames(raw, self.renamed)
        self.bodies = {}
        for b in raw["bodies"]:
            self.bodies[b["id"]] = Body(b, self)
        self.adts = {a["path"]: a for a in raw["adts"]}
        self.statics = raw["statics"]
        self.impls = raw["impls"]
        self.hir = raw.get("hir", {})
        self._cg = None
        self._rcg = None

    def body(self, id):
        return self.bodies.get(id)

    def find(self, pred):
        return [b for b in self.bodies.values() if pred(b)]

    # ---- call graph
    def _build_cg(self):
        cg = defaultdict(set)      # definite + may-call edges, names as printed by rustc
        kinds = {}
        for b in self.bodies.values():
            for c in b.calls:
                if c.callee:
                    cg[b.id].add(c.callee)
                    kinds[(b.id, c.callee)] = "call"
                    # an unresolved trait-method call: add every impl method in this crate as may-call
                    if not c.resolved and c.fn and c.fn.get("trait"):
                        for t in self.trait_method_impls(c.fn["trait"], c.path.rsplit("::", 1)[-1]):
                            cg[b.id].add(t)
                            kinds.setdefault((b.id, t), "dyn")
            # formatting machinery: `{}` / `{:?}` / to_string() of a crate type runs its Display / Debug impl
            # (not for the message of a panic: blocks from which every path ends in a panic call are skipped)
            doomed = self._panic_only_blocks(b)
            refs = [(c.bb, c.callee, c.path, c.full) for c in b.calls]
            refs += [(bb, nm, (f or {}).get("path", nm), (f or {}).get("rfull") or (f or {}).get("full", "")) for bb, nm, f, _ in b.fn_operands()]
            for bb, callee, path, full in refs:
                tr = None
                if callee.endswith("Argument::<'_>::new_display") or callee.endswith("ToString>::to_string") or path.endswith("ToString::to_string"):
                    tr = "std::fmt::Display"
                elif callee.endswith("Argument::<'_>::new_debug"):
                    tr = "std::fmt::Debug"
                if tr is None or bb in doomed:
                    continue
                ty = None
                if "::<" in full and full.endswith(">") and "Argument" in full:
                    ty = full[full.rindex("::<") + 3:-1]
                elif full.startswith("<") and " as " in full:
                    ty = full[1:full.index(" as ")]
                if ty:
                    ty = ty.lstrip("&").strip()
                    for wrapper in ("std::sync::Arc<", "std::boxed::Box<", "std::rc::Rc<"):
                        if ty.startswith(wrapper) and ty.endswith(">"):
                            ty = ty[len(wrapper):-1]
                    t = "<%s as %s>::fmt" % (ty, tr)
                    if t in self.bodies:
                        cg[b.id].add(t)
                        kinds.setdefault((b.id, t), "fmt")
            for _, name, _, _ in b.fn_operands():
                cg[b.id].add(name)
                kinds.setdefault((b.id, name), "fnitem")
        self._cg = cg
        self._cg_kinds = kinds
        r = defaultdict(set)
        for a, bs in cg.items():
            for x in bs:
                r[x].add(a)
        self._rcg = r

    @staticmethod
    def _panic_only_blocks(b):
        """blocks from which every path ends in a panic call (the code that only builds a panic message)"""
        doomed = set()
        for i, blk in enumerate(b.blocks):
            t = blk["term"]
            if t["k"] == "call" and "target" not in t:
                fn = t["func"].get("fn", {})
                n = fn.get("resolved") or fn.get("path", "")
                if n.startswith(("core::panicking::", "std::rt::begin_panic", "std::panicking::")):
                    doomed.add(i)
            elif t["k"] == "unreachable":
                doomed.add(i)
        changed = True
        while changed:
            changed = False
            for i in range(len(b.blocks)):
                if i in doomed:
                    continue
                ss = b.succ[i]
                if ss and all(x in doomed for x in ss):
                    doomed.add(i)
                    changed = True
        return doomed

    def trait_method_impls(self, trait, method):
        out = []
        for im in self.impls:
            if im.get("trait") == trait:
                for it in im["items"]:
                    if it["name"] == method:
                        out.append(it["path"])
        return out

    @property
    def callgraph(self):
        if self._cg is None:
            self._build_cg()
        return self._cg

    @property
    def callers(self):
        if self._cg is None:
            self._build_cg()
        return self._rcg

    def reach(self, roots, cut=(), cut_edge=None):
        """Transitive callees of roots within the crate's call graph (names, incl. external leaves).
        `cut`: names not expanded. Returns dict name -> predecessor (for path reconstruction)."""
        cg = self.callgraph
        cut = set(cut)
        pred = {}
        dq = deque()
        for r in roots:
            if r not in pred:
                pred[r] = None
                dq.append(r)
        while dq:
            u = dq.popleft()
            if u in cut:
                continue
            for v in cg.get(u, ()):
                if cut_edge and cut_edge(u, v):
                    continue
                if v not in pred:
                    pred[v] = u
                    dq.append(v)
        return pred

    @staticmethod
    def chain(pred, name):
        out = [name]
        while pred.get(out[-1]) is not None:
            out.append(pred[out[-1]])
        return out[::-1]

    def closures_of(self, fid):
        """Bodies of closures (transitively) defined inside function `fid`."""
        pre = fid + "::{closure#"
        return [b for i, b in self.bodies.items() if i.startswith(pre)]

    def with_closures(self, fid):
        b = self.bodies.get(fid)
        return ([b] if b else []) + self.closures_of(fid)


class Facts:
    def __init__(self, d, tree_hash=""):
        self.dir = d
        self.tree_hash = tree_hash
        self._crates = {}

    def crate(self, fname):
        if fname not in self._crates:
            p = os.path.join(self.dir, fname)
            with open(p) as fh:
                raw = json.load(fh)
            ren = {}
            if fname == "simplesl.rlib.lib.json":
                from .owners import rename_map
                ren = rename_map(raw["bodies"])
            self._crates[fname] = Crate(raw, ren)
        return self._crates[fname]

    @property
    def lib(self):
        return self.crate("simplesl.rlib.lib.json")

    @property
    def parser(self):
        return self.crate("simplesl_parser.rlib.lib.json")

    @property
    def bin(self):
        return self.crate("simplesl.executable.main.json")

    @property
    def macros(self):
        return self.crate("simplesl_macros.procmacro.lib.json")

    def json(self, name):
        with open(os.path.join(self.dir, name)) as fh:
            return json.load(fh)

    @property
    def grammar(self):
        return self.json("grammar.json")

    @property
    def tables(self):
        return self.json("tables.json")


# ---- helpers over operands / places

def op_local(o):
    if isinstance(o, dict) and o.get("k") in ("copy", "move"):
        return o["l"]
    return None


def place_fields(p):
    return [e for e in p["p"] if e["k"] == "field"]


def is_const(o):
    return isinstance(o, dict) and o.get("k") == "const"


# ---- enum switches

def enum_switches(body, enum=None):
    """Every SwitchInt in `body` whose operand is `discriminant(place)` of an enum (read in the same block).
    Returns list of dicts: bb, place, enum, arms {variant: target}, otherwise (bb), rest (variants not listed)."""
    out = []
    for i, b in enumerate(body.blocks):
        t = b["term"]
        if t["k"] != "switch":
            continue
        l = op_local(t["discr"])
        if l is None:
            continue
        src = None
        for s in b["stmts"]:
            if s["k"] == "assign" and s["place"]["l"] == l and not s["place"]["p"] and s["rv"]["k"] == "discr":
                src = s["rv"]
        if src is None or "enum" not in src:
            continue
        if enum and src["enum"] != enum:
            continue
        variants = src["variants"]
        arms = {}
        for v, tgt in t["targets"]:
            if v in variants:
                arms[variants[v]] = tgt
        rest = [n for v, n in variants.items() if n not in arms]
        out.append({"bb": i, "place": src["place"], "enum": src["enum"], "arms": arms,
                    "otherwise": t["otherwise"], "rest": rest, "line": t.get("line")})
    return out


def arm_region(body, target, stop=()):
    """Blocks dominated by `target` (the code that belongs to that match arm), in BFS order."""
    seen = [target]
    ss = {target}
    i = 0
    stop = set(stop)
    while i < len(seen):
        u = seen[i]
        i += 1
        for v in body.succ[u]:
            if v not in ss and v not in stop and body.dominates(target, v):
                ss.add(v)
                seen.append(v)
    return seen


def calls_in(body, blocks):
    bs = set(blocks)
    order = {b: n for n, b in enumerate(blocks)}
    cs = [c for c in body.calls if c.bb in bs]
    cs.sort(key=lambda c: order.get(c.bb, 0))
    return cs


def aggregates(body, adt=None, variant=None):
    """(bb, stmt) for every Aggregate of the given ADT (and variant)."""
    out = []
    for i, s in body.assigns():
        rv = s["rv"]
        if rv["k"] == "agg" and rv.get("agg") == "adt":
            if adt and rv["adt"] != adt:
                continue
            if variant and rv["variant"] != variant:
                continue
            out.append((i, s))
    return out


def is_panic_call(c):
    n = c.callee
    return (n.startswith("core::panicking::") or n.startswith("std::rt::begin_panic")
            or n.startswith("std::panicking::begin_panic") or n == "core::option::unwrap_failed"
            or n == "core::result::unwrap_failed" or n == "core::option::expect_failed")


def places_read(body):
    """Yield (bb, place_dict, obj) for every place mentioned on the right-hand side / in terminators."""
    for i, b in enumerate(body.blocks):
        for s in b["stmts"]:
            if s["k"] != "assign":
                continue
            rv = s["rv"]
            for key in ("o", "a", "b"):
                o = rv.get(key)
                if isinstance(o, dict) and o.get("k") in ("copy", "move"):
                    yield i, o, s
            for o in rv.get("ops", []):
                if o.get("k") in ("copy", "move"):
                    yield i, o, s
            if "place" in rv:
                yield i, rv["place"], s
        t = b["term"]
        if t["k"] == "call":
            for a in t["args"]:
                if a.get("k") in ("copy", "move"):
                    yield i, a, t
            if t["func"].get("k") in ("copy", "move"):
                yield i, t["func"], t
        elif t["k"] == "switch" and t["discr"].get("k") in ("copy", "move"):
            yield i, t["discr"], t
        elif t["k"] == "assert" and t["cond"].get("k") in ("copy", "move"):
            yield i, t["cond"], t


def short(path):
    """Readable short form of a def path for messages."""
    return path.replace("std::result::Result", "Result").replace("std::option::Option", "Option")
