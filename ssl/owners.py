"""Function identity that survives "extract helper function": a body unknown to the reviewed tables is attributed to
the reviewed function(s) it is (transitively) called from.

owner(b):  closures belong to their enclosing function; a function that has rows of its own (is *known*) owns itself;
an unknown function is owned by the owners of all its callers (a shared helper has several owners); a function nobody
calls owns itself."""
import re

CLOSURE = re.compile(r"(::\{closure#\d+\})+$")


def base(fid):
    return CLOSURE.sub("", fid)


class Owners:
    def __init__(self, crate, known):
        self.crate = crate
        self.known = {base(k) for k in known}
        self._memo = {}
        # callers by base function (closures folded into their parent)
        self.callers = {}
        for caller, callees in crate.callgraph.items():
            cb = base(caller)
            for c in callees:
                t = base(c)
                if t in crate.bodies or c in crate.bodies:
                    if t != cb:
                        self.callers.setdefault(t, set()).add(cb)

    def of(self, fid, _stack=None):
        f = base(fid)
        if f in self._memo:
            return self._memo[f]
        if f in self.known:
            self._memo[f] = frozenset({f})
            return self._memo[f]
        stack = _stack or set()
        if f in stack:
            return frozenset()
        stack = stack | {f}
        out = set()
        for c in self.callers.get(f, ()):
            out |= self.of(c, stack)
        if not out:
            out = {f}
        res = frozenset(out)
        if not _stack:
            self._memo[f] = res
        return res

    def cluster(self, fid):
        """all bodies (incl. closures and absorbed helpers) whose owner set is exactly {fid}"""
        f = base(fid)
        return [b for i, b in self.crate.bodies.items() if self.of(i) == frozenset({f})]

    def members(self, fid):
        """all bodies attributed (also jointly) to fid"""
        f = base(fid)
        return [b for i, b in self.crate.bodies.items() if f in self.of(i)]


def table_functions(*tables):
    out = set()
    for t in tables:
        for k in t:
            out.add(base(k.split("|", 1)[0]))
    return out


_KNOWN = None


def load_known_table():
    """id -> (signature, set(callees)) of the functions that existed when the tables were reviewed"""
    global _KNOWN
    if _KNOWN is None:
        import os
        from . import extract
        p = os.path.join(extract.VERIF, "tables", "known_functions.txt")
        _KNOWN = {}
        if os.path.exists(p):
            for l in open(p):
                l = l.rstrip("\n")
                if l and not l.startswith("#"):
                    f = l.split("\t")
                    _KNOWN[f[0]] = (f[1] if len(f) > 1 else "", set(f[2].split(" ")) if len(f) > 2 and f[2] else set())
    return _KNOWN


def load_known():
    return set(load_known_table())


def rename_map(raw_bodies):
    """{current id -> reviewed id} for reviewed functions that disappeared and have exactly one plausible successor
    among the functions the tables do not know: same signature and the most similar callee set (rename / move)."""
    known = load_known_table()
    present = {}
    for b in raw_bodies:
        i = b["id"]
        if CLOSURE.search(i):
            continue
        present[i] = b
    missing = [k for k in known if k not in present]
    unknown = [i for i in present if i not in known]
    if not missing or not unknown:
        return {}

    def norm_sig(sig):
        return re.sub(r"'[a-z_]+", "'_", sig or "")

    def callees_of(b):
        out = set()
        for blk in b["mir"]["blocks"]:
            t = blk["term"]
            if t["k"] == "call" and "fn" in t["func"]:
                out.add(t["func"]["fn"].get("resolved") or t["func"]["fn"]["path"])
        return out
    out = {}
    taken = set()
    for k in sorted(missing):
        sig, cs = known[k]
        best, second = (None, -1.0), -1.0
        for u in unknown:
            if u in taken or norm_sig(present[u].get("sig") or present[u].get("kind")) != norm_sig(sig):
                continue
            ucs = callees_of(present[u])
            # callees inside closures are not in the raw parent body; compare what we have, tolerate that
            inter = len(cs & ucs)
            score = inter / float(len(cs | ucs) or 1)
            # the same last name segment (a move) or a shared module (a rename) is a strong hint
            if u.rsplit("::", 1)[-1] == k.rsplit("::", 1)[-1] or u.rsplit("::", 1)[0] == k.rsplit("::", 1)[0]:
                score += 0.5
            if score > best[1]:
                second = best[1]
                best = (u, score)
            elif score > second:
                second = score
        if best[0] is not None and best[1] >= 0.5 and best[1] - second >= 0.2:
            out[best[0]] = k
            taken.add(best[0])
    return out


def for_crate(crate):
    if getattr(crate, "_owners", None) is None:
        crate._owners = Owners(crate, load_known())
    return crate._owners
