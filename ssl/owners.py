"""Function identity that survives "extract helper function": a body unknown to the reviewed tables is attributed to
the reviewed function(s) it is (transitively) called from.

owner(b):  closures belong to their enclosing function; a function that has rows of its own (is *known*) owns itself;
an unknown function is owned by the owners of all its callers (a shared helper has several owners); a function nobody
calls owns itself."""
import re

CLOSURE = re.compile(r"(::\{closure#\d+\})+$")


def base(fid):
    return CLOSURE.sub("", fid)


class Owners:
    def __init__(self, crate, known):
        self.crate = crate
        self.known = {base(k) for k in known}
        self._memo = {}
        # callers by base function (closures folded into their parent)
        self.callers = {}
        for caller, callees in crate.callgraph.items():
            cb = base(caller)
            for c in callees:
                t = base(c)
                if t in crate.bodies or c in crate.bodies:
                    if t != cb:
                        self.callers.setdefault(t, set()).add(cb)

    def of(self, fid, _stack=None):
        f = base(fid)
        if f in self._memo:
            return self._memo[f]
        if f in self.known:
            self._memo[f] = frozenset({f})
            return self._memo[f]
        stack = _stack or set()
        if f in stack:
            return frozenset()
        stack = stack | {f}
        out = set()
        for c in self.callers.get(f, ()):
            out |= self.of(c, stack)
        if not out:
            out = {f}
        res = frozenset(out)
        if not _stack:
            self._memo[f] = res
        return res

    def cluster(self, fid):
        """all bodies (incl. closures and absorbed helpers) whose owner set is exactly {fid}"""
        f = base(fid)
        return [b for i, b in self.crate.bodies.items() if self.of(i) == frozenset({f})]

    def members(self, fid):
        """all bodies attributed (also jointly) to fid"""
        f = base(fid)
        return [b for i, b in self.crate.bodies.items() if f in self.of(i)]


def table_functions(*tables):
    out = set()
    for t in tables:
        for k in t:
            out.add(base(k.split("|", 1)[0]))
    return out


def load_known():
    import os
    from . import extract
    p = os.path.join(extract.VERIF, "tables", "known_functions.txt")
    out = set()
    if os.path.exists(p):
        for l in open(p):
            l = l.rstrip("\n")
            if l and not l.startswith("#"):
                out.add(l)
    return out


def for_crate(crate):
    if getattr(crate, "_owners", None) is None:
        crate._owners = Owners(crate, load_known())
    return crate._owners
