"""AST of SimpleSL code from pest pair trees (as dumped by tools/ssl-grammar `parse`).

Expressions are re-associated with the same Pratt algorithm pest's PrattParser runs, driven by the precedence levels
recovered from the MIR of the PRATT_PARSER initialiser (ssl/tablesrc.py::pratt_levels), so `!con || p(v)` is
Or(Not(con), Call(p, v)) exactly when the interpreter sees it that way."""

CONSTS = {"true", "false", "int", "float", "string", "void"}
POSTFIX_REDUCERS = {"sum", "product", "all", "reduce_any", "bitand_reduce", "bitor_reduce", "collect", "iter"}


class AstError(Exception):
    pass


class Builder:
    def __init__(self, levels):
        """levels: [[(fixity, rule, assoc|None)...]...] lowest precedence first"""
        self.prec = {}
        for i, lv in enumerate(levels):
            for fix, rule, assoc in lv:
                self.prec[rule] = (fix, (i + 1) * 10, assoc)

    # ---- statements
    def program(self, pairs):
        return [self.line(p) for p in pairs if p["r"] != "EOI"]

    def line(self, p):
        r = p["r"]
        c = p["c"]
        if r == "return":
            return {"k": "return", "e": self.line(c[0]) if c else None, "at": p["s"]}
        if r == "function_declaration":
            return {"k": "set", "name": c[0]["t"], "e": self.expr_primary(c[1]), "decl": True, "at": p["s"]}
        if r == "set":
            return {"k": "set", "name": c[0]["t"], "e": self.line(c[1]), "decl": False, "at": p["s"]}
        if r == "destruct_tuple":
            return {"k": "destruct", "names": [x["t"] for x in c[0]["c"]], "e": self.line(c[1]), "at": p["s"]}
        if r == "block":
            return {"k": "block", "lines": [self.line(x) for x in c], "at": p["s"]}
        if r == "if_else":
            return {"k": "if", "cond": self.expr(c[0]), "then": self.line(c[1]), "else": self.line(c[2]) if len(c) > 2 else None, "at": p["s"]}
        if r == "set_if_else":
            return {"k": "ifset", "name": c[0]["t"], "type": c[1]["t"], "e": self.expr(c[2]), "then": self.line(c[3]),
                    "else": self.line(c[4]) if len(c) > 4 else None, "at": p["s"]}
        if r == "match":
            arms = []
            for a in c[1:]:
                ac = a["c"]
                if a["r"] == "match_type":
                    arms.append({"k": "type", "name": ac[0]["t"], "type": ac[1]["t"], "body": self.line(ac[2])})
                elif a["r"] == "match_value":
                    arms.append({"k": "value", "values": [self.expr(v) for v in ac[0]["c"]], "body": self.line(ac[1])})
                else:
                    arms.append({"k": "other", "body": self.line(ac[0])})
            return {"k": "match", "e": self.expr(c[0]), "arms": arms, "at": p["s"]}
        if r == "import":
            return {"k": "import", "at": p["s"]}
        if r == "loop":
            return {"k": "loop", "body": self.line(c[0]), "at": p["s"]}
        if r == "while":
            return {"k": "while", "cond": self.expr(c[0]), "body": self.line(c[1]), "at": p["s"]}
        if r == "while_set":
            return {"k": "whileset", "name": c[0]["t"], "type": c[1]["t"], "e": self.expr(c[2]), "body": self.line(c[3]), "at": p["s"]}
        if r == "for":
            return {"k": "for", "name": c[0]["t"], "e": self.expr(c[1]), "body": self.line(c[2]), "at": p["s"]}
        if r == "break":
            return {"k": "break", "at": p["s"]}
        if r == "continue":
            return {"k": "continue", "at": p["s"]}
        if r == "expr":
            return self.expr(p)
        raise AstError("unexpected statement rule %s" % r)

    # ---- expressions: pest's Pratt algorithm
    def expr(self, p):
        if p["r"] != "expr":
            raise AstError("expected expr, found %s" % p["r"])
        toks = list(p["c"])
        pos = [0]

        def peek():
            return toks[pos[0]] if pos[0] < len(toks) else None

        def nxt():
            t = toks[pos[0]]
            pos[0] += 1
            return t

        def lbp():
            t = peek()
            if t is None:
                return 0
            pr = self.prec.get(t["r"])
            if pr is None or pr[0] == "prefix":
                raise AstError("expected postfix or infix operator, found %s" % t["r"])
            return pr[1]

        def nud():
            t = nxt()
            pr = self.prec.get(t["r"])
            if pr is not None and pr[0] == "prefix":
                rhs = ex(pr[1] - 1)
                return {"k": "prefix", "op": t["r"], "e": rhs, "at": t["s"]}
            if pr is not None:
                raise AstError("operator %s where an operand is expected" % t["r"])
            return self.expr_primary(t)

        def led(lhs):
            t = nxt()
            fix, prec, assoc = self.prec[t["r"]]
            if fix == "infix":
                rhs = ex(prec if assoc == "Left" else prec - 1)
                if t["r"] == "reduce":
                    return {"k": "reduce", "it": lhs, "init": self.expr(t["c"][0]), "f": rhs, "at": t["s"]}
                return {"k": "infix", "op": t["r"], "l": lhs, "r": rhs, "at": t["s"]}
            return self.postfix(lhs, t)

        def ex(rbp):
            lhs = nud()
            while rbp < lbp():
                lhs = led(lhs)
            return lhs
        out = ex(0)
        if pos[0] != len(toks):
            raise AstError("trailing tokens in expression")
        return out

    def postfix(self, lhs, t):
        r = t["r"]
        c = t["c"]
        at = t["s"]
        if r == "function_call":
            return {"k": "call", "f": lhs, "args": [self.expr(a) for a in c], "at": at}
        if r == "at":
            return {"k": "at", "e": lhs, "i": self.expr(c[0]), "at": at}
        if r == "slicing":
            parts = {x["r"]: self.expr(x["c"][0]) for x in c}
            return {"k": "slice", "e": lhs, "start": parts.get("start"), "stop": parts.get("stop"), "step": parts.get("step"), "at": at}
        if r == "type_filter":
            return {"k": "typefilter", "e": lhs, "type": c[0]["t"] if c else t["t"], "at": at}
        if r == "tuple_access":
            return {"k": "tupleaccess", "e": lhs, "i": int(c[0]["t"].replace("_", "")), "at": at}
        if r == "field_access":
            return {"k": "field", "e": lhs, "name": c[0]["t"], "at": at}
        if r in POSTFIX_REDUCERS:
            return {"k": "postfix", "op": r, "e": lhs, "at": at}
        raise AstError("unexpected postfix rule %s" % r)

    def expr_primary(self, t):
        r = t["r"]
        c = t["c"]
        at = t["s"]
        if r == "ident":
            return {"k": "ident", "name": t["t"], "at": at}
        if r in CONSTS:
            return {"k": "const", "ty": r, "text": t["t"], "at": at}
        if r == "expr":
            return self.expr(t)
        if r == "tuple":
            return {"k": "tuple", "items": [self.expr(x) for x in c], "at": at}
        if r == "array":
            return {"k": "array", "items": [self.expr(x) for x in c], "at": at}
        if r == "array_repeat":
            return {"k": "arrayrepeat", "v": self.expr(c[0]), "n": self.expr(c[1]), "at": at}
        if r == "function":
            params = []
            for prm in c[0]["c"]:
                pc = prm["c"]
                params.append((pc[0]["t"], pc[1]["t"]))
            rest = c[1:]
            ret = None
            if rest and rest[0]["r"] == "return_type_decl":
                ret = rest[0]["t"]
                rest = rest[1:]
            return {"k": "function", "params": params, "ret": ret, "body": [self.line(x) for x in rest], "at": at}
        if r == "mut":
            e = c[-1]
            return {"k": "mut", "type": c[0]["t"] if len(c) > 1 else None, "e": self.expr(e), "at": at}
        if r == "struct":
            fields = []
            for f in c:
                if f["r"] == "field":
                    fields.append((f["c"][0]["t"], self.expr(f["c"][1])))
                else:
                    fields.append((f["t"], {"k": "ident", "name": f["t"], "at": f["s"]}))
            return {"k": "struct", "fields": fields, "at": at}
        if r == "mod":
            return {"k": "mod", "body": self.line(c[0]), "at": at}
        raise AstError("unexpected primary rule %s" % r)


def show(n, depth=0):
    """compact one-line rendering (for reports)"""
    if n is None:
        return "-"
    k = n["k"]
    if k == "ident":
        return n["name"]
    if k == "const":
        return n["text"]
    if k == "infix":
        return "(%s %s %s)" % (show(n["l"]), n["op"], show(n["r"]))
    if k == "prefix":
        return "%s(%s)" % (n["op"], show(n["e"]))
    if k == "call":
        return "%s(%s)" % (show(n["f"]), ", ".join(show(a) for a in n["args"]))
    if k == "tuple":
        return "(%s)" % ", ".join(show(a) for a in n["items"])
    if k == "reduce":
        return "(%s $%s %s)" % (show(n["it"]), show(n["init"]), show(n["f"]))
    if k == "function":
        return "fn(%s){..}" % ", ".join(p for p, _ in n["params"])
    return k
