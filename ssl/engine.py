"""Rule engine: results, known findings, evidence, exit protocol."""
import json
import os
import sys
import time
import traceback

from . import extract
from .model import Facts

VERIF = extract.VERIF
OUT = os.environ.get("SSL_OUT", VERIF)   # evidence/replay root (redirected for mutant self-tests)


class Violation:
    def __init__(self, rule, key, msg, where="", detail=None):
        self.rule = rule
        self.key = key          # stable: no line numbers, no source text
        self.msg = msg
        self.where = where      # file:line, for the human only
        self.detail = detail or []

    def text(self):
        s = "[%s] %s\n    key: %s\n    at: %s" % (self.rule, self.msg, self.key, self.where)
        for d in self.detail:
            s += "\n      " + d
        return s


class RuleResult:
    """What one rule evaluated. `instances`: one dict per rule instance judged
    ({key, verdict, where, note}); `violations`; `broken`: reasons the *checker* cannot decide
    (missing anchor, floor not met, positive control silent) - these also fail the check (fail closed)."""

    def __init__(self, rule, describe):
        self.rule = rule
        self.describe = describe
        self.instances = []
        self.violations = []
        self.broken = []
        self.info = []
        self.stats = {}

    def ok(self, key, where="", note=""):
        self.instances.append({"rule": self.rule, "key": key, "verdict": "ok", "where": where, "note": note})

    def bad(self, key, msg, where="", detail=None):
        self.instances.append({"rule": self.rule, "key": key, "verdict": "VIOLATION", "where": where, "note": msg})
        self.violations.append(Violation(self.rule, key, msg, where, detail))

    def anchor(self, cond, what):
        """Fail closed when something the rule is anchored on is not in the facts."""
        if not cond:
            self.broken.append("anchor missing: " + what)
        return bool(cond)

    def floor(self, count, minimum, what):
        self.stats[what] = count
        if count < minimum:
            self.broken.append("floor not met: %s = %d < %d (the rule would pass vacuously)" % (what, count, minimum))

    def control(self, fired, what):
        self.stats["control:" + what] = bool(fired)
        if not fired:
            self.broken.append("positive control silent: %s (the rule no longer recognises the forbidden shape)" % what)


def load_known():
    p = os.path.join(VERIF, "known_findings.txt")
    out = []
    if not os.path.exists(p):
        return out
    for ln in open(p):
        ln = ln.rstrip("\n")
        if not ln.strip() or ln.startswith("#"):
            continue
        parts = [x.strip() for x in ln.split(" | ")]
        head = parts[0]
        if ":" not in head:
            continue
        status, rest = head.split(":", 1)
        rest = rest.strip()
        if not rest.startswith("property="):
            continue
        prop, _, what = rest.partition(" ")
        e = {"status": status.strip(), "property": prop[len("property="):], "what": what.strip(), "rule": "", "key": "", "repro": ""}
        for x in parts[1:]:
            for f in ("rule", "key", "repro"):
                if x.startswith(f + "="):
                    e[f] = x[len(f) + 1:]
        out.append(e)
    return out


class Ctx:
    def __init__(self, prop, tier, seed):
        self.prop = prop
        self.tier = tier
        self.seed = seed
        self._facts = None
        self._fx = None

    @property
    def facts(self):
        if self._facts is None:
            d, th = extract.facts_dir(self.tier)
            self._facts = Facts(d, th)
        return self._facts

    @property
    def fixtures(self):
        if self._fx is None:
            d = extract.fixture_facts()
            self._fx = Facts(d).crate("ssl_fixtures.rlib.lib.json")
        return self._fx


def run_property(prop, rules, tier, seed, explanation, assumptions, trusted):
    """rules: list of callables(ctx) -> RuleResult | list[RuleResult]."""
    t0 = time.time()
    ctx = Ctx(prop, tier, seed)
    results = []
    fatal = None
    try:
        _ = ctx.facts
        for r in rules:
            out = r(ctx)
            if isinstance(out, RuleResult):
                out = [out]
            results.extend(out)
    except extract.ExtractionError as e:
        fatal = "extraction failed: %s" % e
    except Exception:
        fatal = "checker crashed:\n" + traceback.format_exc()

    known = [k for k in load_known() if k["status"] == "open"]
    reported, suppressed = [], []
    for res in results:
        for v in res.violations:
            k = next((k for k in known if k["rule"] == v.rule and k["key"] == v.key), None)
            if k:
                suppressed.append((v, k))
            else:
                reported.append(v)
    broken = [(res.rule, b) for res in results for b in res.broken]
    if fatal:
        broken.append(("engine", fatal))

    os.makedirs(os.path.join(OUT, "replay"), exist_ok=True)
    os.makedirs(os.path.join(OUT, "evidence"), exist_ok=True)
    seen_known = set()
    for v, k in suppressed:
        if (k["rule"], k["key"]) in seen_known:
            continue
        seen_known.add((k["rule"], k["key"]))
        print("KNOWN-FINDING: property=%s %s [%s %s]" % (prop, k["what"], k["rule"], k["key"]))
    n = 0
    for v in reported:
        n += 1
        rp = os.path.join(OUT, "replay", "%s-%d.txt" % (prop, n))
        with open(rp, "w") as fh:
            fh.write("property %s, tier %s, tree %s\n%s\n" % (prop, tier, ctx._facts.tree_hash if ctx._facts else "?", v.text()))
        print(v.text())
        print("VIOLATION property=%s replay=%s" % (prop, rp))
    for rule, b in broken:
        n += 1
        rp = os.path.join(OUT, "replay", "%s-%d.txt" % (prop, n))
        with open(rp, "w") as fh:
            fh.write("property %s: the check cannot decide (fail closed)\n[%s] %s\n" % (prop, rule, b))
        print("[%s] CHECK CANNOT DECIDE (fail closed): %s" % (rule, b))
        print("VIOLATION property=%s replay=%s" % (prop, rp))

    selftest = []
    if tier == "thorough" and not fatal:
        from . import selftest as st
        selftest = st.run(prop)
        for r in selftest:
            if r["fired"] is False:
                print("SELFTEST-MISS (defect of the checker, not of the property): seeded edit %s [%s] was %s" % (r["mutant"], r.get("what", ""), r["detail"]))
        fired = len([r for r in selftest if r["fired"]])
        print("   self-test: %d/%d seeded edits reported (%d skipped)" % (fired, len([r for r in selftest if r["fired"] is not None]),
                                                                       len([r for r in selftest if r["fired"] is None])))
    instances = [i for res in results for i in res.instances]
    distinct = len({(i["rule"], i["key"]) for i in instances})
    per_rule = {}
    for res in results:
        d = per_rule.setdefault(res.rule, {"describe": res.describe, "instances": 0, "violations": 0, "stats": {}})
        d["instances"] += len(res.instances)
        d["violations"] += len(res.violations)
        d["stats"].update(res.stats)
        if res.info:
            d.setdefault("info", []).extend(res.info[:20])
    # samples: a few instances per rule, written out
    samples = []
    for res in results:
        for i in res.instances[:4]:
            samples.append(i)
    lib_stats = {}
    if ctx._facts is not None:
        try:
            lib = ctx.facts.lib
            lib_stats = {"bodies_lib": len(lib.bodies),
                         "call_sites_lib": sum(len(b.calls) for b in lib.bodies.values()),
                         "basic_blocks_lib": sum(len(b.blocks) for b in lib.bodies.values())}
        except Exception:
            pass
    ev = {
        "property_id": prop,
        "tier": tier,
        "seed": seed,
        "level": "other",
        "coverage": {
            "explanation": explanation,
            "evaluations": len(instances),
            "distinct_nontrivial": distinct,
            "rule": "one evaluation = one rule instance (a site, table row or pairing found in the facts of THIS tree "
                    "and judged); distinct = distinct (rule, key) pairs; keys contain no line numbers",
            "obligations": len(instances),
            "discharged": len([i for i in instances if i["verdict"] == "ok"]),
            "samples": samples[:40] or [{"note": "no instance evaluated"}],
            "rules": per_rule,
            "analysed": lib_stats,
            "tree_hash": ctx._facts.tree_hash if ctx._facts else None,
            "known_findings_suppressed": [k["key"] for _, k in suppressed],
            "checker_broken": [b for _, b in broken],
            "trusted_base": trusted,
            "exhaustive": True,
            "selftest_total": len([r for r in selftest if r["fired"] is not None]),
            "selftest_fired": len([r for r in selftest if r["fired"]]),
            "selftest": selftest,
        },
        "assumptions": assumptions,
        "wall_s": round(time.time() - t0, 3),
        "violations": len(reported) + len(broken),
    }
    with open(os.path.join(OUT, "evidence", "%s.json" % prop), "w") as fh:
        json.dump(ev, fh, indent=1, sort_keys=True)
    print("%s [%s]: %d rule instances, %d distinct, %d violations, %d known findings, %d checker faults, %.1fs"
          % (prop, tier, len(instances), distinct, len(reported), len(seen_known), len(broken), time.time() - t0))
    for rname, d in per_rule.items():
        print("   %-14s instances=%-4d violations=%d  %s" % (rname, d["instances"], d["violations"],
                                                          " ".join("%s=%s" % kv for kv in sorted(d["stats"].items()))))
    return 1 if (reported or broken) else 0
