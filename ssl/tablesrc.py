"""Source tables recovered from MIR / docs (no text matching on Rust sources)."""
import os
import re

from . import extract
from .model import enum_switches, arm_region, calls_in, aggregates, op_local

PRATT_INIT = "<PRATT_PARSER as std::ops::Deref>::deref::__static_ref_initialize"


class TableError(Exception):
    pass


def _unit_variant_defs(body):
    """local -> (adt, variant) for locals assigned a field-less enum aggregate."""
    d = {}
    for _, s in body.assigns():
        rv = s["rv"]
        if rv["k"] == "agg" and rv.get("agg") == "adt" and not rv["ops"] and not s["place"]["p"]:
            d.setdefault(s["place"]["l"], set()).add((rv["adt"], rv["variant"]))
    return d


def pratt_levels(parser_crate):
    """[[(fixity, rule, assoc|None), ...], ...] lowest precedence first, from the MIR of the lazy_static init."""
    b = parser_crate.body(PRATT_INIT)
    if b is None:
        raise TableError("PRATT_PARSER initialiser not found in simplesl_parser facts")
    consts = _unit_variant_defs(b)

    def unit(o, adt_suffix):
        l = op_local(o)
        vs = consts.get(l, set())
        vs = {v for a, v in vs if a.endswith(adt_suffix)}
        if len(vs) != 1:
            raise TableError("cannot resolve %s operand in PRATT_PARSER initialiser" % adt_suffix)
        return next(iter(vs))
    ops = {}     # local -> list of op tuples
    levels = []
    bb = 0
    seen = set()
    while True:
        if bb in seen:
            raise TableError("loop in PRATT_PARSER initialiser")
        seen.add(bb)
        t = b.blocks[bb]["term"]
        if t["k"] == "call":
            fn = t["func"].get("fn", {})
            p = fn.get("path", "")
            dest = t["dest"]["l"]
            if p.endswith("Op::<R>::infix"):
                ops[dest] = [("infix", unit(t["args"][0], "Rule"), unit(t["args"][1], "Assoc"))]
            elif p.endswith("Op::<R>::prefix"):
                ops[dest] = [("prefix", unit(t["args"][0], "Rule"), None)]
            elif p.endswith("Op::<R>::postfix"):
                ops[dest] = [("postfix", unit(t["args"][0], "Rule"), None)]
            elif p.endswith("BitOr>::bitor") or p == "std::ops::BitOr::bitor":
                ops[dest] = ops[op_local(t["args"][0])] + ops[op_local(t["args"][1])]
            elif p.endswith("PrattParser::<R>::op"):
                levels.append(ops[op_local(t["args"][1])])
            elif p.endswith("PrattParser::<R>::new"):
                pass
            else:
                raise TableError("unexpected call %s in PRATT_PARSER initialiser" % p)
        elif t["k"] == "return":
            break
        nxt = [x for x in b.term_succ(t)]
        if t["k"] == "drop":
            nxt = [t["target"]]
        if len(nxt) != 1:
            if t["k"] == "switch":
                # drop-flag tests emitted by drop elaboration: follow the arm for a constant-false flag is not
                # decidable here; both arms only drop temporaries, so take the first that reaches return
                nxt = nxt[:1]
            else:
                raise TableError("PRATT_PARSER initialiser is not straight-line code (bb%d)" % bb)
        bb = nxt[0]
    if not levels:
        raise TableError("no .op() levels found")
    return levels


def display_strings(crate, enum_path):
    """variant -> literal written by the derived Display impl (None when it has no plain literal)."""
    b = crate.body("<%s as std::fmt::Display>::fmt" % enum_path)
    if b is None:
        raise TableError("Display impl of %s not found" % enum_path)
    sw = [s for s in enum_switches(b, enum_path)]
    if not sw:
        raise TableError("no match on %s in its Display impl" % enum_path)
    sw = sw[0]
    out = {}
    for var, tgt in sw["arms"].items():
        lits = []
        for c in calls_in(b, arm_region(b, tgt)):
            for a in c.args:
                if a.get("k") == "const" and a.get("ty") == "&str":
                    lits.append(_unquote(a["val"]))
        out[var] = lits[0] if len(lits) == 1 else None
    return out


def _unquote(v):
    # rustc prints a str const as a Rust string literal: "..." with escapes
    if v.startswith("const "):
        v = v[6:]
    if len(v) >= 2 and v[0] == '"' and v[-1] == '"':
        v = v[1:-1]
    return v.replace('\\\\', '\x00').replace('\\"', '"').replace("\\'", "'").replace('\x00', '\\')


def rule_dispatch(body, enum="simplesl_parser::Rule", place_local=None):
    """For the (first) match on a Rule value in `body`: variant -> (first crate-local callee | aggregate) info.
    Returns (switch, {variant: {"calls": [...callee names...], "aggs": [(adt, variant)...], "target": bb}})."""
    sws = enum_switches(body, enum)
    if not sws:
        return None, {}
    # merge all switches over the same place (guards produce nested switches)
    first = sws[0]
    out = {}
    for sw in sws:
        if sw["place"] != first["place"]:
            continue
        for var, tgt in sw["arms"].items():
            if var in out:
                continue
            reg = arm_region(body, tgt)
            cs = [c.callee for c in calls_in(body, reg) if c.callee]
            ags = []
            rs = set(reg)
            for i, s in body.assigns():
                if i in rs and s["rv"]["k"] == "agg" and s["rv"].get("agg") == "adt":
                    ags.append((s["rv"]["adt"], s["rv"]["variant"]))
            out[var] = {"calls": cs, "aggs": ags, "target": tgt}
    return first, out


def docs_precedence(root=None):
    """Rows of the Precedence table in docs/operators.md: [(level:int, token:str, assoc:str)], assoc inherited
    downwards from the last non-empty cell."""
    root = root or extract.REPO
    p = os.path.join(root, "docs/operators.md")
    if not os.path.exists(p):
        raise TableError("docs/operators.md not found")
    rows = []
    in_table = False
    level = None
    assoc = None
    for ln in open(p, encoding="utf-8"):
        s = ln.strip()
        if s.startswith("## Precedence"):
            in_table = True
            continue
        if in_table and s.startswith("## "):
            break
        if not in_table or not s.startswith("|"):
            continue
        # split on unescaped pipes
        cells = [c.strip() for c in re.split(r"(?<!\\)\|", s)[1:]]
        if len(cells) < 2 or cells[0].startswith("---") or cells[0] == "Precedence":
            continue
        if cells[0]:
            try:
                level = int(cells[0])
            except ValueError:
                continue
        tok = cells[1].replace("\\|", "|").replace("\\\\", "\\")
        # a row whose operator itself contains an unescaped '|' (e.g. `|=`) splits into an empty cell + '='
        if tok == "" and len(cells) > 2 and cells[2].startswith("="):
            tok = "|" + cells[2].split()[0]
            a = cells[4] if len(cells) > 4 else ""
        else:
            a = cells[3] if len(cells) > 3 else ""
        if a:
            assoc = a
        if level is None:
            continue
        rows.append((level, tok, assoc))
    if not rows:
        raise TableError("precedence table not found in docs/operators.md")
    return rows
