//! Controls for R-ITERLOOP: pull loops with one defect each (same paths as in the interpreter so that the rule
//! recognises the calls: crate::function::Function::exec_with_args, crate::variable::Variable).
use crate::function::Function;
use crate::variable::{ExecError, Variable};

/// correct reference: collect
pub fn collect_ok(iter: &Function) -> Result<Vec<Variable>, ExecError> {
    let mut vec = Vec::new();
    while let Variable::Tuple(tuple) = iter.exec_with_args(&[])? {
        if tuple[0] == Variable::Bool(false) {
            break;
        }
        vec.push(tuple[1].clone());
    }
    Ok(vec)
}

/// pulls twice per iteration (skips every other element)
pub fn collect_pull_twice(iter: &Function) -> Result<Vec<Variable>, ExecError> {
    let mut vec = Vec::new();
    while let Variable::Tuple(tuple) = iter.exec_with_args(&[])? {
        if tuple[0] == Variable::Bool(false) {
            break;
        }
        vec.push(tuple[1].clone());
        iter.exec_with_args(&[])?;
    }
    Ok(vec)
}

/// consumes the payload of the end marker
pub fn collect_unguarded(iter: &Function) -> Result<Vec<Variable>, ExecError> {
    let mut vec = Vec::new();
    while let Variable::Tuple(tuple) = iter.exec_with_args(&[])? {
        vec.push(tuple[1].clone());
        if tuple[0] == Variable::Bool(false) {
            break;
        }
    }
    Ok(vec)
}

/// (element, accumulator) instead of (accumulator, element)
pub fn reduce_swapped(iter: &Function, f: &Function, init: Variable) -> Result<Variable, ExecError> {
    let mut result = init;
    while let Variable::Tuple(tuple) = iter.exec_with_args(&[])? {
        if tuple[0] == Variable::Bool(false) {
            break;
        }
        result = f.exec_with_args(&[tuple[1].clone(), result])?;
    }
    Ok(result)
}

/// drops elements for which the callback result is an Int
pub fn collect_drops(iter: &Function, flag: bool) -> Result<Vec<Variable>, ExecError> {
    let mut vec = Vec::new();
    while let Variable::Tuple(tuple) = iter.exec_with_args(&[])? {
        if tuple[0] == Variable::Bool(false) {
            break;
        }
        if flag {
            vec.push(tuple[1].clone());
        }
    }
    Ok(vec)
}

/// halves in the wrong order
pub fn partition_swapped(iter: &Function, p: &Function) -> Result<(Vec<Variable>, Vec<Variable>), ExecError> {
    let mut left = Vec::new();
    let mut right = Vec::new();
    while let Variable::Tuple(tuple) = iter.exec_with_args(&[])? {
        if tuple[0] == Variable::Bool(false) {
            break;
        }
        let element = tuple[1].clone();
        if let Variable::Bool(true) = p.exec_with_args(std::slice::from_ref(&element))? {
            left.push(element)
        } else {
            right.push(element)
        };
    }
    Ok((right, left))
}

/// `matches!` form with the test inverted: stops at the first element, goes on after the end marker
pub fn collect_inverted(iter: &Function) -> Result<Vec<Variable>, ExecError> {
    let mut elements = Vec::new();
    loop {
        let Variable::Tuple(tuple) = iter.exec_with_args(&[])? else {
            break;
        };
        if !matches!(tuple[0], Variable::Bool(false)) {
            break;
        }
        elements.push(tuple[1].clone());
    }
    Ok(elements)
}

/// correct `matches!` form
pub fn collect_matches_ok(iter: &Function) -> Result<Vec<Variable>, ExecError> {
    let mut elements = Vec::new();
    loop {
        let Variable::Tuple(tuple) = iter.exec_with_args(&[])? else {
            break;
        };
        if matches!(tuple[0], Variable::Bool(false)) {
            break;
        }
        elements.push(tuple[1].clone());
    }
    Ok(elements)
}
