use crate::variable::{ExecError, Variable};
pub struct Function;
impl Function {
    #[inline(never)]
    pub fn exec_with_args(&self, args: &[Variable]) -> Result<Variable, ExecError> {
        Ok(args.first().cloned().unwrap_or(Variable::Bool(false)))
    }
}
