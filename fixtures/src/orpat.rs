//! R-ORPAT / R-UNSAFE controls.

/// forbidden: overlapping alternatives, `x` bound at different positions, then a condition (shape of D6)
pub fn first_only(a: Option<i32>, b: Option<i32>) -> bool {
    if let (Some(x), _) | (_, Some(x)) = (a, b)
        && x < 0
    {
        return false;
    }
    true
}

pub enum E {
    A(i32),
    B(i32),
}

/// allowed: alternatives are mutually exclusive
pub fn exclusive(e: E) -> bool {
    if let E::A(x) | E::B(x) = e
        && x < 0
    {
        return false;
    }
    true
}

/// forbidden: user-written unsafe
pub fn raw_read(p: *const i32) -> i32 {
    unsafe { *p }
}
