//! Positive controls: tiny functions exhibiting each forbidden shape. Every rule whose expected
//! count on /repo is zero must report its control here on every run.
#![allow(dead_code, unused)]
pub mod errflow;
pub mod hashorder;
pub mod cast;
pub mod lock;
pub mod orpat;
pub mod guard;
pub mod panic;
pub mod folddrop;
pub mod function;
pub mod variable;
pub mod iterloop;
pub mod typetext;
pub mod queryimpl;
