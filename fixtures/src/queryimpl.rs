//! R-QUERYIMPL controls: a result type that unwraps a query of the right operand when the left one is an array, with an
//! admissibility predicate that implies it (`good_can_be_used`) and one that tests the operands the wrong way round.
use crate::variable::r#type::Type;

pub fn return_type(lhs: Type, rhs: Type) -> Type {
    let Some(l) = lhs.element_type() else {
        return lhs;
    };
    let r = rhs.element_type().unwrap();
    if l == r { Type::Array(Box::new(l)) } else { Type::Array(Box::new(r)) }
}

pub fn good_can_be_used(lhs: &Type, rhs: &Type) -> bool {
    let ok = lhs.element_type().is_none() || rhs.element_type().is_some();
    ok && lhs.matches(rhs)
}

pub fn swapped_can_be_used(lhs: &Type, rhs: &Type) -> bool {
    let ok = rhs.element_type().is_none() || lhs.element_type().is_some();
    ok && lhs.matches(rhs)
}

/// the same predicate as `good_can_be_used`, written as a match on both answers (must be accepted)
pub fn good_match_can_be_used(lhs: &Type, rhs: &Type) -> bool {
    match (lhs.element_type(), rhs.element_type()) {
        (Some(_), None) => false,
        _ => lhs.matches(rhs),
    }
}

/// ... and with an early return (must be accepted)
pub fn good_early_can_be_used(lhs: &Type, rhs: &Type) -> bool {
    if lhs.element_type().is_some() && !rhs.element_type().is_some() {
        return false;
    }
    lhs.matches(rhs)
}

fn both_fit(lhs: &Type, rhs: &Type) -> bool {
    if !lhs.matches(rhs) {
        return false;
    }
    lhs.element_type().is_none() || rhs.element_type().is_some()
}

/// the queries are asked in a private helper (must be accepted)
pub fn good_helper_can_be_used(lhs: &Type, rhs: &Type) -> bool {
    both_fit(lhs, rhs)
}

/// ... and the helper handed the operands the wrong way round (must be reported)
pub fn swapped_helper_can_be_used(lhs: &Type, rhs: &Type) -> bool {
    both_fit(rhs, lhs)
}

/// `is_some_and` on the answer (must be accepted)
pub fn good_some_and_can_be_used(lhs: &Type, rhs: &Type) -> bool {
    lhs.element_type().is_none() || rhs.element_type().is_some_and(|_| lhs.matches(rhs))
}
