//! R-GUARD / R-MUSTCALL controls.
fn check(x: i32) -> Result<(), String> {
    if x < 0 { Err("neg".into()) } else { Ok(()) }
}

/// forbidden: one arm reaches success without the check
pub fn bypassed(kind: u8, x: i32) -> Result<i32, String> {
    match kind {
        0 => {
            check(x)?;
        }
        _ => {}
    }
    Ok(x)
}
