//! R-CAST controls.
pub fn unguarded(i: i64, v: &[i32]) -> Option<i32> {
    let idx = i as usize;
    v.get(idx).copied()
}

pub fn guarded(i: i64, v: &[i32]) -> Option<i32> {
    if i < 0 {
        return None;
    }
    let idx = i as usize;
    v.get(idx).copied()
}
