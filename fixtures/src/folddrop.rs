//! R-FOLDDROP controls.
pub enum Instruction {
    Variable(bool),
    Call(String),
    And(Box<Instruction>, Box<Instruction>),
}

/// forbidden: `x && false` folded to `false` drops a non-constant left operand (shape of the seeded C04/C07 changes)
pub fn absorbing_rhs(lhs: Instruction, rhs: Instruction) -> Instruction {
    match (lhs, rhs) {
        (Instruction::Variable(true), rhs) => rhs,
        (Instruction::Variable(_), _) => Instruction::Variable(false),
        (_, rhs @ Instruction::Variable(false)) => rhs,
        (lhs, rhs) => Instruction::And(Box::new(lhs), Box::new(rhs)),
    }
}

/// allowed: only a constant left operand decides
pub fn constant_lhs(lhs: Instruction, rhs: Instruction) -> Instruction {
    match (lhs, rhs) {
        (Instruction::Variable(true), rhs) => rhs,
        (Instruction::Variable(_), _) => Instruction::Variable(false),
        (lhs, rhs) => Instruction::And(Box::new(lhs), Box::new(rhs)),
    }
}

/// control for R-CHILDKEEP: children filtered while "folding"
pub fn filter_children(mut children: Vec<i64>, keep: i64) -> Vec<i64> {
    children.retain(|c| *c == keep);
    children
}
