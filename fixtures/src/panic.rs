//! R-PANIC controls.
pub fn new_unwrap(v: &[i32]) -> i32 {
    *v.first().unwrap()
}

pub fn raw_add(a: i64, b: i64) -> i64 {
    a + b
}
