//! R-ERRFLOW controls.
pub enum FxStop {
    Break,
    Error(i32),
}

fn fallible(x: i32) -> Result<i32, FxStop> {
    if x > 3 { Err(FxStop::Error(x)) } else { Ok(x) }
}

/// forbidden: non-short-circuiting consumer of an iterator of Results (the shape of D1)
pub fn last_over_results(v: &[i32]) -> Result<i32, FxStop> {
    v.iter().map(|x| fallible(*x)).last().unwrap_or(Ok(0))
}

/// forbidden: result dropped
pub fn dropped_result(x: i32) -> i32 {
    let _ = fallible(x);
    x
}

/// forbidden: `.ok()` and default
pub fn ok_and_default(x: i32) -> i32 {
    fallible(x).ok().unwrap_or(0)
}

/// forbidden: match that ignores the error payload
pub fn swallowing_match(x: i32) -> i32 {
    match fallible(x) {
        Ok(v) => v,
        Err(_) => 0,
    }
}

/// allowed (negative control): `?`, map, match that looks at the payload
pub fn propagates(x: i32) -> Result<i32, FxStop> {
    let a = fallible(x)?;
    let b = fallible(a).map(|v| v + 1)?;
    match fallible(b) {
        Ok(v) => Ok(v),
        Err(FxStop::Error(e)) => Ok(e),
        Err(other) => Err(other),
    }
}

/// forbidden: a buffered writer that is dropped without flush - the write error disappears in Drop
pub fn buffered_never_flushed(contents: &[u8]) -> std::io::Result<()> {
    use std::io::Write;
    let mut w = std::io::BufWriter::new(std::io::sink());
    w.write_all(contents)
}

/// allowed (negative control): flushed before the success value
pub fn buffered_flushed(contents: &[u8]) -> std::io::Result<()> {
    use std::io::Write;
    let mut w = std::io::BufWriter::new(std::io::sink());
    w.write_all(contents)?;
    w.flush()
}
