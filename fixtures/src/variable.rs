use std::sync::Arc;
#[derive(Clone, PartialEq, Debug)]
pub enum Variable {
    Bool(bool),
    Int(i64),
    Tuple(Arc<[Variable]>),
}
#[derive(Debug)]
pub struct ExecError;

/// stand-in for the interpreter's `Type` (R-QUERYIMPL controls): same def path `variable::r#type::Type::<query>`
pub mod r#type {
    #[derive(Clone, PartialEq, Debug)]
    pub enum Type {
        Int,
        Array(Box<Type>),
        Never,
    }
    impl Type {
        pub fn element_type(&self) -> Option<Type> {
            match self {
                Type::Array(t) => Some((**t).clone()),
                _ => None,
            }
        }
        pub fn matches(&self, other: &Type) -> bool {
            self == other || *self == Type::Never
        }
    }
}
