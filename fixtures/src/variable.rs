use std::sync::Arc;
#[derive(Clone, PartialEq, Debug)]
pub enum Variable {
    Bool(bool),
    Int(i64),
    Tuple(Arc<[Variable]>),
}
#[derive(Debug)]
pub struct ExecError;
