//! Controls for R-TYPETEXT: text placed around a printed type.
use std::fmt;

pub struct Ty(pub &'static str);

impl fmt::Display for Ty {
    fn fmt(&self, f: &mut fmt::Formatter<'_>) -> fmt::Result {
        f.write_str(self.0)
    }
}

/// positive control: the template continues the type's syntax (`mut int|float` reads as `(mut int)|float`)
pub fn cell_of(t: &Ty) -> String {
    format!("cannot initialise mut {t} with this value")
}

/// negative control: the type stands alone in prose
pub fn prose(t: &Ty) -> String {
    format!("expected a value of type {t} here")
}
