//! R-LOCK / R-GLOBAL controls.
use std::sync::{Mutex, RwLock};

pub enum Val {
    Int(i64),
    Cell(std::sync::Arc<Cell>),
}

pub struct Cell {
    pub v: RwLock<Val>,
}

impl Val {
    pub fn render(&self) -> String {
        match self {
            Val::Int(i) => format!("{i}"),
            Val::Cell(c) => c.render(),
        }
    }
}

impl Cell {
    /// forbidden: holds the read guard while rendering the content, which may reach this function again (shape of D16)
    pub fn render(&self) -> String {
        format!("mut {}", self.v.read().unwrap().render())
    }
}

/// forbidden: read under one guard, write under another (lost update)
pub fn read_then_write(c: &RwLock<i64>) {
    let old = *c.read().unwrap();
    *c.write().unwrap() = old + 1;
}

/// forbidden: mutable global
pub static COUNTER: Mutex<u64> = Mutex::new(0);
