//! R-HASH / R-HASHORDER / R-NONDET controls.
use std::collections::{HashMap, HashSet};
use std::hash::{Hash, Hasher};

/// forbidden: pick the first element in hash order (shape of D10)
pub fn pick_first(s: &HashSet<i32>) -> Option<i32> {
    s.iter().next().copied()
}

/// forbidden: hash order frozen into a Vec
pub fn collect_vec(m: &HashMap<String, i32>) -> Vec<i32> {
    m.values().copied().collect()
}

fn sub(a: i32, b: i32) -> i32 {
    a - b
}

/// forbidden: fold with a combiner that is not known to be commutative
pub fn noncommutative_fold(s: &HashSet<i32>) -> i32 {
    s.iter().copied().fold(0, |a, b| sub(a, b))
}

/// allowed
pub fn all_members(s: &HashSet<i32>) -> bool {
    s.iter().all(|x| *x > 0)
}

/// allowed
pub fn into_set(s: &HashSet<i32>) -> HashSet<i32> {
    s.iter().map(|x| x + 1).collect()
}

/// forbidden in a Hash impl (shape of D3)
pub struct OrderHash(pub HashMap<String, i32>);
impl Hash for OrderHash {
    fn hash<H: Hasher>(&self, state: &mut H) {
        self.0.keys().collect::<Box<[&String]>>().hash(state)
    }
}

/// allowed in a Hash impl: sorted first
pub struct SortedHash(pub HashMap<String, i32>);
impl Hash for SortedHash {
    fn hash<H: Hasher>(&self, state: &mut H) {
        let mut keys = self.0.keys().collect::<Box<[&String]>>();
        keys.sort_unstable();
        keys.hash(state)
    }
}

/// forbidden outside stdlib::{fs,io}
pub fn clock() -> u64 {
    std::time::SystemTime::now().duration_since(std::time::UNIX_EPOCH).map(|d| d.as_secs()).unwrap_or(0)
}

/// order-dependent: loop-carried accumulator over hash order
pub fn loop_accumulate(s: &HashSet<i32>) -> i32 {
    let mut acc = 0;
    for x in s.iter() {
        acc = acc * 31 + x;
    }
    acc
}

/// order-free: first member as reference, effect-free scan of the rest with a fixed early answer
pub fn loop_scan_all_equal(s: &HashSet<i32>) -> Option<i32> {
    let mut members = s.iter();
    let first = *members.next()?;
    for member in members {
        if *member / 2 != first / 2 {
            return None;
        }
    }
    Some(first / 2)
}

/// forbidden (R-RENDERKEY): the text of a value used as a set key - the rendering of a map-backed value follows hash order
pub fn dedup_by_text(items: &[std::collections::HashMap<String, i32>]) -> usize {
    let mut seen = HashSet::new();
    items.iter().filter(|m| seen.insert(format!("{m:?}"))).count()
}

/// allowed (negative control): the text is only returned
pub fn render_only(item: &std::collections::HashMap<String, i32>) -> String {
    format!("{item:?}")
}
