//! Type-level witnesses: facts about SimpleSL's public types that rustc itself decides.
//! Each `compile_fail,E0xxx` witness has a compiling twin that differs only in the offending line,
//! so "fails to compile" cannot be satisfied by a typo. Run with `cargo +nightly test --doc`
//! (the stable toolchain ignores the error code).

/// W1 (pass): parsed code, values, functions, types and a 'static interpreter are Send + Sync.
/// ```
/// fn shared<T: Send + Sync>() {}
/// shared::<simplesl::Code>();
/// shared::<simplesl::variable::Variable>();
/// shared::<simplesl::function::Function>();
/// shared::<simplesl::variable::Type>();
/// shared::<simplesl::variable::Mut>();
/// shared::<simplesl::Interpreter<'static>>();
/// ```
///
/// W1 twin (fail): the same assertion rejects a type that is really not thread-safe.
/// ```compile_fail,E0277
/// fn shared<T: Send + Sync>() {}
/// shared::<simplesl::Code>();
/// shared::<std::rc::Rc<simplesl::variable::Variable>>();
/// ```
pub struct W1SendSync;

/// W2 (pass): `Code` holds no borrow of the interpreter it was parsed against.
/// ```
/// fn owned<T: 'static>(_: &T) {}
/// fn parse<'a>(i: &'a simplesl::Interpreter<'a>) {
///     let code = simplesl::Code::parse(i, "1 + 1").unwrap();
///     owned(&code);
/// }
/// ```
///
/// W2 twin (fail): the interpreter itself is not 'static when it borrows a lower layer.
/// ```compile_fail
/// fn owned<T: 'static>(_: &T) {}
/// fn parse<'a>(i: &'a simplesl::Interpreter<'a>) {
///     let code = simplesl::Code::parse(i, "1 + 1").unwrap();
///     owned(&code);
///     owned(i);
/// }
/// ```
pub struct W2CodeStatic;

/// W3 (pass): a cell can be shared (the Arc is cloned) ...
/// ```
/// fn share(m: &std::sync::Arc<simplesl::variable::Mut>) -> std::sync::Arc<simplesl::variable::Mut> {
///     Clone::clone(m)
/// }
/// ```
///
/// W3 twin (fail): ... but never copied: `Mut` is not `Clone`.
/// ```compile_fail,E0277
/// fn copy(m: &simplesl::variable::Mut) -> simplesl::variable::Mut {
///     Clone::clone(m)
/// }
/// ```
pub struct W3MutNotClone;

/// W4 (pass): `Code::exec` takes no interpreter: it cannot touch the one the code was parsed against.
/// ```
/// let f: fn(&simplesl::Code) -> Result<simplesl::variable::Variable, simplesl::ExecError> = simplesl::Code::exec;
/// let g: fn(&simplesl::Interpreter, &str) -> Result<simplesl::Code, simplesl::Error> = simplesl::Code::parse;
/// let _ = (f, g);
/// ```
///
/// W4 twin (fail): parsing needs only a shared reference - a signature demanding `&mut` does not match.
/// ```compile_fail,E0308
/// let f: fn(&simplesl::Code) -> Result<simplesl::variable::Variable, simplesl::ExecError> = simplesl::Code::exec;
/// let g: fn(&mut simplesl::Interpreter, &str) -> Result<simplesl::Code, simplesl::Error> = simplesl::Code::parse;
/// let _ = (f, g);
/// ```
pub struct W4ExecIsolated;
